package verifh

import (
	"bytes"
	"fmt"
	"os"
	"path/filepath"
	"sort"
	"strings"
)

// Reference model of the protocol's per-connection state machine. Ground truth about the tree comes from the
// harness's own os.* calls on the directory it built, never through afero or the code under test.

type roObj struct {
	desc      string
	undefined bool // reads are unconstrained (e.g. a directory was "opened")
	size      int64
	read      func(off int64, n int) []byte // exactly n bytes of the object at off (caller keeps off+n <= size)
	mask      func(off int64, b []byte)     // zeroes declared-variable bytes (may be nil)
	cdSector  int
}

type cwdModel struct {
	real      string
	remaining map[string]bool
	fuzzy     bool // tree changed under the open directory: entries optional, end marker allowed any time
	optional  bool // a failed open-dir happened since: the handle may or may not have been dropped
}

type Model struct {
	unacked map[string][]byte // per uploaded file: payload bytes of a final write that ended without an answer
	root       string
	allowWrite bool
	cwd        *cwdModel
	ro         *roObj
	wo         string // real path of the open write file ("" = none)
	woUndef    bool
	objFor     func(m *Model, clean string) (*roObj, bool, bool) // (object, handled, exists)
	strictPath bool                                              // paths are well-formed absolute paths
	lastEnd    int64                                             // end offset of the last data read (hidden cursors make it state)
	roOptional bool                                              // ro may or may not be held by the server (after a fault)
	pre        string                                            // kind of the target before the request (mutating ops)
	files      map[string][]byte                                 // expected content of files uploaded in this session
}

// kindOf classifies a real path: missing | noparent | file | emptydir | dir
func kindOf(real string) string {
	fi, err := os.Lstat(real)
	if err != nil {
		if pfi, perr := os.Stat(filepath.Dir(real)); perr != nil || !pfi.IsDir() {
			return "noparent"
		}
		return "missing"
	}
	if fi.IsDir() {
		des, _ := os.ReadDir(real)
		if len(des) == 0 {
			return "emptydir"
		}
		return "dir"
	}
	return "file"
}

// Pre records what the request's target is before the request is sent.
func (m *Model) Pre(req Req) {
	m.pre = ""
	if req.Raw == nil && isPathOp(req.Op) {
		m.pre = kindOf(m.real(req.Path))
	}
}

// Final checks uploaded file contents on disk after the session.
func (m *Model) Final() string {
	for real, want := range m.files {
		got, err := os.ReadFile(real)
		if err != nil {
			return fmt.Sprintf("uploaded file %s unreadable afterwards: %v", real, err)
		}
		if extra, ok := m.unacked[real]; ok && len(got) >= len(want) && len(got) <= len(want)+len(extra) && bytes.Equal(got[:len(want)], want) && bytes.Equal(got[len(want):], extra[:len(got)-len(want)]) {
			continue // the acknowledged bytes, followed by a prefix of the payload that was never acknowledged
		}
		if !bytes.Equal(got, want) {
			return fmt.Sprintf("uploaded file %s: on disk %s", real, describeDiff(got, want))
		}
	}
	return ""
}

func newModel(root string, allowWrite bool) *Model {
	return &Model{root: root, allowWrite: allowWrite, strictPath: true}
}

func cleanWire(p string) string { return filepath.Clean("/" + p) }

func (m *Model) real(p string) string { return filepath.Join(m.root, cleanWire(p)) }

func virtualSplit(clean string) (rest string, kind string) {
	for _, k := range []string{"DVD", "PS3"} {
		pre := "/***" + k + "***/"
		if strings.HasPrefix(clean, pre) {
			return "/" + strings.TrimPrefix(clean, pre), k
		}
	}
	return clean, ""
}

type entryTruth struct {
	name  string
	isDir bool
	size  int64
	t     statTimes
}

// listTruth lists a directory the way the protocol defines it: symlinks resolved, dangling ones omitted.
func listTruth(dir string) map[string]entryTruth {
	out := map[string]entryTruth{}
	des, err := os.ReadDir(dir)
	if err != nil {
		return out
	}
	for _, de := range des {
		fi, err := os.Stat(filepath.Join(dir, de.Name()))
		if err != nil {
			continue
		}
		e := entryTruth{name: de.Name(), isDir: fi.IsDir(), t: sysTimes(fi)}
		if !fi.IsDir() {
			e.size = fi.Size()
		}
		out[de.Name()] = e
	}
	return out
}

func fileObj(real string) *roObj {
	fi, err := os.Stat(real)
	if err != nil {
		return nil
	}
	o := &roObj{desc: real, size: fi.Size()}
	o.read = func(off int64, n int) []byte {
		f, err := os.Open(real)
		must(err)
		defer f.Close()
		b := make([]byte, n)
		k, _ := f.ReadAt(b, off)
		return b[:k]
	}
	o.cdSector = detectCDSector(o)
	return o
}

var cdSectorSizes = []int{2352, 2048, 2336, 2448, 2328, 2340, 2368}

// detectCDSector: the documented rule — for images of 2 MiB..848 MiB look for the ISO 9660 / PLAYSTATION
// signature in the 16th sector for each supported raw sector size; 2352 when undetectable.
func detectCDSector(o *roObj) int {
	if o.size < 0x200000 || o.size > 0x35000000 {
		return 2352
	}
	for _, s := range cdSectorSizes {
		off := int64(s)*16 + 24
		if off+20 > o.size {
			continue
		}
		b := o.read(off, 20)
		if len(b) == 20 && (string(b[1:6]) == "CD001" && b[0] == 1 || string(b[8:20]) == "PLAYSTATION ") {
			return s
		}
	}
	return 2352
}

func wantTimes(t statTimes) string { return fmt.Sprintf("m=%d c=%d a=%d", t.m, t.c, t.a) }

func timesOK(gm, gc, ga uint64, t statTimes) bool {
	if int64(gm) != t.m || int64(gc) != t.c {
		return false
	}
	return int64(ga) == t.a || int64(ga) == t.m || int64(ga) == t.c
}

func isEndMarker(resp []byte, v2 bool) bool {
	n := szDirEntryHdr
	if v2 {
		n = szDirEntryV2
	}
	if len(resp) != n {
		return false
	}
	if int64(be64(resp)) != -1 {
		return false
	}
	if v2 {
		return be16(resp[32:]) == 0 && resp[34] == 0
	}
	return be16(resp[8:]) == 0 && resp[10] == 0
}

func boolByte(b bool) byte {
	if b {
		return 1
	}
	return 0
}

// touchDir is called after a mutation: if the open directory is affected its listing becomes fuzzy.
func (m *Model) touchDir(real string) {
	if m.cwd != nil && (filepath.Dir(real) == m.cwd.real || real == m.cwd.real || strings.HasPrefix(m.cwd.real, real+"/")) {
		m.cwd.fuzzy = true
	}
}

func hexHead(b []byte) string {
	if len(b) > 48 {
		return fmt.Sprintf("%x...(%d bytes)", b[:48], len(b))
	}
	return fmt.Sprintf("%x", b)
}

// Check validates the response to req in the current state and advances the state.
// Returns ("", class) when admissible, else a description.
func (m *Model) Check(req Req, resp []byte, closed bool) (why string, class string) {
	if m.roOptional && req.Raw == nil {
		switch req.Op {
		case opReadFile, opReadFileCritical, opReadCD2048:
			a := m.clone()
			a.roOptional = false
			if why, class := a.check(req, resp, closed); why == "" {
				return "", class
			}
			b := m.clone()
			b.roOptional, b.ro = false, nil
			why, class := b.check(req, resp, closed)
			if why == "" {
				m.ro, m.roOptional = nil, false
			}
			return why, class
		case opOpenFile:
			m.roOptional = false
		}
	}
	return m.check(req, resp, closed)
}

func (m *Model) check(req Req, resp []byte, closed bool) (why string, class string) {
	if req.Raw == nil && (req.Op == opReadFile || req.Op == opReadFileCritical) {
		m.lastEnd = int64(req.Off + uint64(req.Limit))
	}
	bad := func(f string, a ...any) (string, string) { return fmt.Sprintf(f, a...), "bad:" + slug(f) }
	if req.Raw != nil {
		// malformed / truncated / unknown: only ends the connection, no stray bytes
		if req.Op == opWriteFile && req.Trunc >= 16 && len(resp) == 4 && closed {
			// the command itself was complete, only the payload was cut short by the client's FIN: a truthful
			// answer (refusal, or the number of payload bytes that did arrive and were stored) is not a stray byte
			got := int32(be32(resp))
			if (!m.allowWrite || m.wo == "") && got == -1 {
				return "", "trunc-write-refused"
			}
			if m.allowWrite && m.wo != "" && int(got) == req.Trunc-16 {
				if _, ok := m.files[m.wo]; ok {
					m.files[m.wo] = append(m.files[m.wo], req.Raw[16:]...)
				}
				return "", "trunc-write-partial"
			}
		}
		if len(resp) != 0 {
			return bad("stray bytes after malformed request: %s", hexHead(resp))
		}
		if !closed {
			return bad("connection left open after malformed/unknown request")
		}
		if req.Op == opWriteFile && req.Trunc > 16 && m.allowWrite && m.wo != "" {
			// an upload that ended without any answer: nothing was acknowledged, what arrived may have been stored
			// (any prefix of it)
			if _, ok := m.files[m.wo]; ok {
				if m.unacked == nil {
					m.unacked = map[string][]byte{}
				}
				m.unacked[m.wo] = append([]byte{}, req.Raw[16:]...)
			}
		}
		return "", "malformed-closed"
	}
	switch req.Op {
	case opOpenDir:
		real := m.real(req.Path)
		fi, err := os.Stat(real)
		isDir := err == nil && fi.IsDir()
		_, vk := virtualSplit(cleanWire(req.Path))
		if closed {
			return bad("connection closed by open-dir")
		}
		if len(resp) != 4 {
			return bad("open-dir response length %d, want 4: %s", len(resp), hexHead(resp))
		}
		got := int32(be32(resp))
		if vk != "" {
			// open-dir on a virtual-image path: protocol silent; must be 0 or -1, listing afterwards unconstrained
			if got != 0 && got != -1 {
				return bad("open-dir result %d", got)
			}
			m.cwd = &cwdModel{real: "\x00virtual", remaining: map[string]bool{}, fuzzy: true}
			return "", "opendir-virtual"
		}
		if isDir {
			if got != 0 {
				return bad("open-dir of existing directory %q answered %d, want 0", req.Path, got)
			}
			rem := map[string]bool{}
			for n := range listTruth(real) {
				rem[n] = true
			}
			m.cwd = &cwdModel{real: real, remaining: rem}
			return "", "opendir-ok"
		}
		if got != -1 {
			return bad("open-dir of %q (not an existing directory) answered %d, want -1", req.Path, got)
		}
		if m.cwd != nil {
			m.cwd.optional = true
		}
		return "", "opendir-fail"

	case opReadDirEntry, opReadDirEntryV2:
		v2 := req.Op == opReadDirEntryV2
		hdr := szDirEntryHdr
		if v2 {
			hdr = szDirEntryV2
		}
		if closed {
			return bad("connection closed by read-dir-entry")
		}
		if len(resp) < hdr {
			return bad("read-dir-entry response too short (%d < %d): %s", len(resp), hdr, hexHead(resp))
		}
		if m.cwd == nil {
			if !isEndMarker(resp, v2) {
				return bad("read-dir-entry without open directory: want end marker, got %s", hexHead(resp))
			}
			return "", "direntry-none"
		}
		if isEndMarker(resp, v2) {
			if len(m.cwd.remaining) > 0 && !m.cwd.fuzzy && !m.cwd.optional {
				return bad("end marker while %d entries were never reported: %v", len(m.cwd.remaining), keys(m.cwd.remaining))
			}
			m.cwd = nil
			return "", "direntry-end"
		}
		size := int64(be64(resp))
		var nameLen int
		var isDir byte
		if v2 {
			nameLen, isDir = int(be16(resp[32:])), resp[34]
		} else {
			nameLen, isDir = int(be16(resp[8:])), resp[10]
		}
		if len(resp) != hdr+nameLen {
			return bad("read-dir-entry: header announces name of %d bytes but %d bytes follow the header: %s", nameLen, len(resp)-hdr, hexHead(resp))
		}
		name := string(resp[hdr:])
		if m.cwd.real == "\x00virtual" {
			return "", "direntry-virtual"
		}
		truth, ok := listTruth(m.cwd.real)[name]
		if !ok {
			return bad("read-dir-entry reported %q which is not an entry of the open directory", name)
		}
		if !m.cwd.remaining[name] && !m.cwd.fuzzy {
			return bad("read-dir-entry reported %q twice (or after it was consumed)", name)
		}
		delete(m.cwd.remaining, name)
		m.cwd.optional = false
		if isDir != boolByte(truth.isDir) || size != truth.size {
			return bad("read-dir-entry %q: got dir=%d size=%d, want dir=%v size=%d", name, isDir, size, truth.isDir, truth.size)
		}
		if v2 && !timesOK(be64(resp[8:]), be64(resp[16:]), be64(resp[24:]), truth.t) {
			return bad("read-dir-entry-v2 %q: times m=%d c=%d a=%d, want %s", name, be64(resp[8:]), be64(resp[16:]), be64(resp[24:]), wantTimes(truth.t))
		}
		return "", "direntry-item"

	case opReadDir:
		if closed {
			return bad("connection closed by read-dir")
		}
		if len(resp) < 8 {
			return bad("read-dir response too short: %s", hexHead(resp))
		}
		cnt := int64(be64(resp))
		if cnt < 0 || int64(len(resp)) != 8+cnt*szDirEntry {
			return bad("read-dir announces %d entries but %d bytes follow (want %d)", cnt, len(resp)-8, cnt*szDirEntry)
		}
		if m.cwd == nil {
			if cnt != 0 {
				return bad("read-dir without open directory returned %d entries", cnt)
			}
			return "", "readdir-none"
		}
		if m.cwd.real == "\x00virtual" {
			return "", "readdir-virtual"
		}
		truthAll := listTruth(m.cwd.real)
		seen := map[string]bool{}
		for i := int64(0); i < cnt; i++ {
			e := resp[8+i*szDirEntry : 8+(i+1)*szDirEntry]
			nb := e[17:]
			if z := bytes.IndexByte(nb, 0); z >= 0 {
				nb = nb[:z]
			}
			name := string(nb)
			truth, ok := truthAll[name]
			if !ok {
				return bad("read-dir reported %q which is not an entry of the open directory", name)
			}
			if seen[name] || (!m.cwd.remaining[name] && !m.cwd.fuzzy) {
				return bad("read-dir reported %q twice", name)
			}
			seen[name] = true
			if int64(be64(e)) != truth.size || e[16] != boolByte(truth.isDir) || int64(be64(e[8:])) != truth.t.m {
				return bad("read-dir entry %q: size=%d mtime=%d dir=%d, want size=%d mtime=%d dir=%v", name, int64(be64(e)), be64(e[8:]), e[16], truth.size, truth.t.m, truth.isDir)
			}
		}
		if cnt == 0 && m.cwd.optional {
			m.cwd = nil
			return "", "readdir-dropped"
		}
		for n := range m.cwd.remaining {
			if !seen[n] && !m.cwd.fuzzy {
				return bad("read-dir omitted entry %q (reported %d of %d)", n, cnt, len(m.cwd.remaining))
			}
		}
		m.cwd.remaining = map[string]bool{}
		m.cwd.optional = false
		return "", "readdir-list"

	case opStatFile:
		if closed {
			return bad("connection closed by stat")
		}
		if len(resp) != szStat {
			return bad("stat response length %d, want %d: %s", len(resp), szStat, hexHead(resp))
		}
		clean := cleanWire(req.Path)
		if _, vk := virtualSplit(clean); vk != "" {
			return "", "stat-virtual"
		}
		fi, err := os.Stat(m.real(req.Path))
		size := int64(be64(resp))
		if err != nil {
			if size != -1 {
				return bad("stat of non-existent %q answered size=%d, want -1", req.Path, size)
			}
			return "", "stat-missing"
		}
		want := fi.Size()
		if fi.IsDir() {
			want = 0
		}
		if size != want || resp[32] != boolByte(fi.IsDir()) {
			return bad("stat %q: size=%d dir=%d, want size=%d dir=%v", req.Path, size, resp[32], want, fi.IsDir())
		}
		if !timesOK(be64(resp[8:]), be64(resp[16:]), be64(resp[24:]), sysTimes(fi)) {
			return bad("stat %q: times m=%d c=%d a=%d, want %s", req.Path, be64(resp[8:]), be64(resp[16:]), be64(resp[24:]), wantTimes(sysTimes(fi)))
		}
		return "", "stat-ok"

	case opOpenFile:
		if closed {
			return bad("connection closed by open-file")
		}
		if len(resp) != szOpenFile {
			return bad("open-file response length %d, want %d: %s", len(resp), szOpenFile, hexHead(resp))
		}
		clean := cleanWire(req.Path)
		size := int64(be64(resp))
		mt := int64(be64(resp[8:]))
		if filepath.Base(clean) == "CLOSEFILE" {
			m.ro = nil
			if size != 0 || mt != 0 {
				return bad("CLOSEFILE answered size=%d mtime=%d, want zeros", size, mt)
			}
			return "", "closefile"
		}
		if m.objFor != nil {
			if obj, handled, exists := m.objFor(m, clean); handled {
				if !exists || obj == nil {
					m.ro = nil
					if size != -1 {
						return bad("open-file %q: want -1, got size=%d", req.Path, size)
					}
					return "", "open-special-missing"
				}
				m.ro = obj
				if size != obj.size {
					return bad("open-file %q announced size %d, object size is %d", req.Path, size, obj.size)
				}
				return "", "open-special"
			}
		}
		if rest, vk := virtualSplit(clean); vk != "" {
			// generated image of a directory: content is judged by C02/C07-C09; here only the framing
			fi, err := os.Stat(filepath.Join(m.root, rest))
			if err != nil || !fi.IsDir() {
				m.ro = nil
				if size != -1 {
					return bad("open-file of virtual image of non-directory %q answered size=%d, want -1", req.Path, size)
				}
				return "", "open-virtual-missing"
			}
			m.ro = &roObj{undefined: true, desc: "virtual"}
			if size == -1 {
				m.ro = nil
				return "", "open-virtual-refused"
			}
			if size <= 0 || size%2048 != 0 {
				return bad("open-file of virtual image %q announced size %d", req.Path, size)
			}
			return "", "open-virtual"
		}
		real := m.real(req.Path)
		fi, err := os.Stat(real)
		if err != nil {
			m.ro = nil
			if size != -1 {
				return bad("open-file of non-existent %q answered size=%d, want -1", req.Path, size)
			}
			return "", "open-missing"
		}
		if fi.IsDir() {
			// protocol silent: failure, or some handle whose reads are unconstrained
			m.ro = &roObj{undefined: true, desc: "dir"}
			if size == -1 {
				m.ro = nil
			}
			return "", "open-dir-as-file"
		}
		m.ro = fileObj(real)
		if size != fi.Size() || mt != fi.ModTime().Unix() {
			return bad("open-file %q announced size=%d mtime=%d, file has size=%d mtime=%d", req.Path, size, mt, fi.Size(), fi.ModTime().Unix())
		}
		return "", "open-ok"

	case opReadFile:
		if m.ro == nil {
			if closed && len(resp) == 0 {
				return "", "read-nofile-closed"
			}
			if !closed && len(resp) == 4 && int32(be32(resp)) == -1 {
				return "", "read-nofile-err"
			}
			return bad("read without open file: want close or -1, got closed=%v %s", closed, hexHead(resp))
		}
		if m.ro.undefined {
			// content is unconstrained, the framing is not: either the connection ends without a byte, or one
			// complete answer (a length and exactly that many bytes) is sent
			what := m.ro.desc
			if closed {
				m.ro = nil
				if len(resp) != 0 {
					return bad("ordinary read on an opened %s: connection closed after %d stray bytes (%s)", what, len(resp), hexHead(resp))
				}
				return "", "read-undefined-closed"
			}
			if len(resp) < 4 {
				return bad("ordinary read on an opened %s: %d bytes answered", what, len(resp))
			}
			if ann := int64(int32(be32(resp))); ann != -1 && int64(len(resp)) != 4+ann || ann == -1 && len(resp) != 4 || ann < -1 {
				return bad("ordinary read on an opened %s announced %d bytes but %d follow", what, ann, len(resp)-4)
			}
			return "", "read-undefined"
		}
		// the offset is unsigned on the wire: anything at or beyond the size (incl. >= 2^63) is an empty range
		n := int64(req.Limit)
		if req.Off >= uint64(m.ro.size) {
			n = 0
		} else if int64(req.Off)+n > m.ro.size {
			n = m.ro.size - int64(req.Off)
		}
		if closed {
			return bad("ordinary read (off=%d limit=%d size=%d) closed the connection after %d bytes", req.Off, req.Limit, m.ro.size, len(resp))
		}
		if len(resp) < 4 {
			return bad("ordinary read: no length announcement (got %d bytes, expected 4+%d): %s", len(resp), n, hexHead(resp))
		}
		ann := int64(int32(be32(resp)))
		if ann != n {
			return bad("ordinary read (off=%d limit=%d size=%d): announced %d bytes, want %d (response is %d bytes)", req.Off, req.Limit, m.ro.size, ann, n, len(resp))
		}
		if int64(len(resp)) != 4+n {
			return bad("ordinary read announced %d bytes but %d follow", ann, len(resp)-4)
		}
		if d := m.cmpContent(int64(req.Off), resp[4:]); d != "" {
			return bad("ordinary read (off=%d limit=%d): %s", req.Off, req.Limit, d)
		}
		if n == 0 {
			return "", "read-empty"
		}
		if n < int64(req.Limit) {
			return "", "read-short"
		}
		return "", "read-full"

	case opReadFileCritical:
		if m.ro == nil {
			if closed && len(resp) == 0 {
				return "", "readc-nofile-closed"
			}
			return bad("critical read without open file: want close with no bytes, got closed=%v %s", closed, hexHead(resp))
		}
		if m.ro.undefined {
			what := m.ro.desc
			if closed {
				m.ro = nil
				if int64(len(resp)) >= int64(req.Limit) && req.Limit > 0 {
					return bad("critical read on an opened %s: connection closed after a complete answer of %d bytes", what, len(resp))
				}
				return "", "readc-undefined-closed"
			}
			if int64(len(resp)) != int64(req.Limit) {
				return bad("critical read on an opened %s: %d bytes answered for limit %d and the connection stays open", what, len(resp), req.Limit)
			}
			return "", "readc-undefined"
		}
		avail := int64(0)
		if req.Off < uint64(m.ro.size) {
			avail = m.ro.size - int64(req.Off)
		}
		if avail >= int64(req.Limit) {
			if closed {
				return bad("critical read (off=%d limit=%d size=%d) closed the connection after %d bytes", req.Off, req.Limit, m.ro.size, len(resp))
			}
			if int64(len(resp)) != int64(req.Limit) {
				return bad("critical read (off=%d limit=%d size=%d) returned %d bytes", req.Off, req.Limit, m.ro.size, len(resp))
			}
			if d := m.cmpContent(int64(req.Off), resp); d != "" {
				return bad("critical read (off=%d limit=%d): %s", req.Off, req.Limit, d)
			}
			return "", "readc-full"
		}
		// cannot be satisfied: correct prefix then close
		if int64(len(resp)) > avail {
			return bad("critical read past EOF (off=%d limit=%d size=%d) returned %d bytes, more than the %d available", req.Off, req.Limit, m.ro.size, len(resp), avail)
		}
		if d := m.cmpContent(int64(req.Off), resp); d != "" {
			return bad("critical read past EOF: %s", d)
		}
		if !closed {
			return bad("critical read past EOF (off=%d limit=%d size=%d) left the connection open after %d of %d bytes", req.Off, req.Limit, m.ro.size, len(resp), req.Limit)
		}
		return "", "readc-eof-closed"

	case opReadCD2048:
		if m.ro == nil {
			if closed && len(resp) == 0 {
				return "", "cd-nofile-closed"
			}
			return bad("CD read without open file: want close with no bytes, got closed=%v %s", closed, hexHead(resp))
		}
		if m.ro.undefined {
			if closed {
				m.ro = nil
			}
			return "", "cd-undefined"
		}
		var want []byte
		short := false
		for k := int64(req.Start); k < int64(req.Start)+int64(req.Count); k++ {
			off := 24 + k*int64(m.ro.cdSector)
			if off+2048 <= m.ro.size {
				want = append(want, m.ro.read(off, 2048)...)
			} else {
				if off < m.ro.size {
					want = append(want, m.ro.read(off, int(m.ro.size-off))...)
				}
				short = true
				break
			}
		}
		if !short {
			if closed {
				return bad("CD read (start=%d count=%d sector=%d) closed the connection after %d bytes", req.Start, req.Count, m.ro.cdSector, len(resp))
			}
			if !bytes.Equal(resp, want) {
				return bad("CD read (start=%d count=%d, sector size %d): %s", req.Start, req.Count, m.ro.cdSector, describeDiff(resp, want))
			}
			if req.Count == 0 {
				return "", "cd-empty"
			}
			return "", "cd-ok"
		}
		if len(resp) > len(want) || !bytes.Equal(resp, want[:len(resp)]) {
			return bad("CD read crossing EOF (start=%d count=%d, sector size %d): %s", req.Start, req.Count, m.ro.cdSector, describeDiff(resp, want))
		}
		if !closed {
			return bad("CD read crossing EOF left the connection open")
		}
		return "", "cd-eof-closed"

	case opCreateFile:
		if closed {
			return bad("connection closed by create")
		}
		if len(resp) != 4 {
			return bad("create response length %d, want 4", len(resp))
		}
		got := int32(be32(resp))
		if got != 0 && got != -1 {
			return bad("create result %d", got)
		}
		if !m.allowWrite {
			if got != -1 {
				return bad("create answered %d while writing is disabled", got)
			}
			return "", "create-refused"
		}
		clean := cleanWire(req.Path)
		real := m.real(req.Path)
		m.wo = ""
		if _, vk := virtualSplit(clean); vk != "" {
			if got != -1 {
				return bad("create on virtual-image path %q answered %d, want -1", req.Path, got)
			}
			return "", "create-virtual"
		}
		fi, err := os.Stat(real)
		m.touchDir(real)
		if err == nil && fi.IsDir() {
			return "", "create-on-dir" // closes the write file; either code
		}
		pfi, perr := os.Stat(filepath.Dir(real))
		parentOK := perr == nil && pfi.IsDir()
		if got == 0 {
			if err != nil {
				return bad("create %q answered 0 but no file exists afterwards", req.Path)
			}
			if fi.Size() != 0 {
				return bad("create %q answered 0 but the file is not empty (%d bytes)", req.Path, fi.Size())
			}
			m.wo = real
			if m.files == nil {
				m.files = map[string][]byte{}
			}
			m.files[real] = []byte{}
			return "", "create-ok"
		}
		if parentOK {
			return bad("create %q (parent exists, target is not a directory) answered -1", req.Path)
		}
		return "", "create-fail"

	case opWriteFile:
		if len(resp) == 0 && closed {
			if !m.allowWrite || m.wo == "" {
				return "", "write-refused-closed"
			}
			return bad("write closed the connection")
		}
		if closed {
			return bad("write: connection closed after %s", hexHead(resp))
		}
		if len(resp) != 4 {
			return bad("write response length %d, want 4: %s", len(resp), hexHead(resp))
		}
		got := int32(be32(resp))
		if !m.allowWrite || m.wo == "" {
			if got != -1 {
				return bad("write answered %d with writing disabled or no file created, want -1", got)
			}
			return "", "write-refused"
		}
		if int(got) != len(req.Payload) {
			return bad("write of %d bytes answered %d", len(req.Payload), got)
		}
		if _, ok := m.files[m.wo]; ok {
			m.files[m.wo] = append(m.files[m.wo], req.Payload...)
		}
		return "", "write-ok"

	case opDeleteFile, opMkdir, opRmdir:
		if closed {
			return bad("connection closed by %s", opName(req.Op))
		}
		if len(resp) != 4 {
			return bad("%s response length %d, want 4", opName(req.Op), len(resp))
		}
		got := int32(be32(resp))
		if got != 0 && got != -1 {
			return bad("%s result %d", opName(req.Op), got)
		}
		if !m.allowWrite {
			if got != -1 {
				return bad("%s answered %d while writing is disabled", opName(req.Op), got)
			}
			return "", "mut-refused"
		}
		real := m.real(req.Path)
		m.touchDir(real)
		now := kindOf(real)
		var wantOK bool
		var after string
		switch req.Op {
		case opDeleteFile:
			wantOK, after = m.pre == "file", "missing"
		case opMkdir:
			wantOK, after = m.pre == "missing", "emptydir"
		case opRmdir:
			wantOK, after = m.pre == "emptydir", "missing"
		}
		if wantOK {
			if got != 0 {
				return bad("%s %q (target was %s) answered -1, want 0", opName(req.Op), req.Path, m.pre)
			}
			if now != after {
				return bad("%s %q answered 0 but target is now %s, want %s", opName(req.Op), req.Path, now, after)
			}
			if req.Op == opDeleteFile {
				delete(m.files, real)
				if m.wo == real {
					m.woUndef = true
				}
			}
			return "", "mut-ok"
		}
		if now != m.pre {
			return bad("%s %q: target was %s and must not change, but is now %s (answered %d)", opName(req.Op), req.Path, m.pre, now, got)
		}
		if got != -1 {
			return bad("%s %q (target was %s) answered 0 although it has no effect to report, want -1", opName(req.Op), req.Path, m.pre)
		}
		return "", "mut-fail"

	case opGetDirSize:
		if closed {
			return bad("connection closed by dir-size")
		}
		if len(resp) != 8 {
			return bad("dir-size response length %d, want 8", len(resp))
		}
		got := int64(be64(resp))
		real := m.real(req.Path)
		if _, vk := virtualSplit(cleanWire(req.Path)); vk != "" {
			return "", "dirsize-virtual"
		}
		fi, err := os.Stat(real)
		if err != nil {
			if got != -1 && got != 0 {
				return bad("dir-size of non-existent %q answered %d", req.Path, got)
			}
			return "", "dirsize-missing"
		}
		if !fi.IsDir() {
			if got != -1 && got != 0 && got != fi.Size() {
				return bad("dir-size of file %q answered %d", req.Path, got)
			}
			return "", "dirsize-file"
		}
		want := dirSizeTruth(real)
		if got != want {
			return bad("dir-size of %q answered %d, regular files beneath it total %d", req.Path, got, want)
		}
		return "", "dirsize-ok"
	}
	// unknown opcode
	if len(resp) != 0 || !closed {
		return bad("unknown opcode %#x: want close without bytes, got closed=%v %s", req.Op, closed, hexHead(resp))
	}
	return "", "unknown-closed"
}

func dirSizeTruth(dir string) int64 { return dirSizeTruthDepth(dir, 0) }

func dirSizeTruthDepth(dir string, depth int) int64 {
	var total int64
	filepath.Walk(dir, func(p string, fi os.FileInfo, err error) error {
		if err != nil {
			return nil
		}
		if fi.Mode()&os.ModeSymlink != 0 {
			// operator-placed symlinks are followed by design
			if t, e := os.Stat(p); e == nil {
				if !t.IsDir() {
					total += t.Size()
				} else if depth < 8 {
					total += dirSizeTruthDepth(p+"/", depth+1)
				}
			}
			return nil
		}
		if fi.Mode().IsRegular() {
			total += fi.Size()
		}
		return nil
	})
	return total
}

func (m *Model) cmpContent(off int64, got []byte) string {
	if len(got) == 0 {
		return ""
	}
	want := m.ro.read(off, len(got))
	if m.ro.mask != nil {
		got = append([]byte{}, got...)
		want = append([]byte{}, want...)
		m.ro.mask(off, got)
		m.ro.mask(off, want)
	}
	if bytes.Equal(got, want) {
		return ""
	}
	return describeDiff(got, want)
}

func describeDiff(got, want []byte) string {
	if len(got) != len(want) {
		n := len(got)
		if len(want) < n {
			n = len(want)
		}
		for i := 0; i < n; i++ {
			if got[i] != want[i] {
				return fmt.Sprintf("length %d vs expected %d, first difference at byte %d (got %02x want %02x)", len(got), len(want), i, got[i], want[i])
			}
		}
		return fmt.Sprintf("length %d vs expected %d (common prefix equal)", len(got), len(want))
	}
	for i := range got {
		if got[i] != want[i] {
			cnt := 0
			for j := i; j < len(got); j++ {
				if got[j] != want[j] {
					cnt++
				}
			}
			return fmt.Sprintf("wrong bytes: first difference at +%d of %d (got %02x want %02x), %d bytes differ", i, len(got), got[i], want[i], cnt)
		}
	}
	return ""
}

func keys(m map[string]bool) []string {
	var k []string
	for s := range m {
		k = append(k, s)
	}
	sort.Strings(k)
	if len(k) > 5 {
		k = k[:5]
	}
	return k
}

// slug turns a message format into a short stable tag used in violation signatures.
func slug(f string) string {
	var b strings.Builder
	words := 0
	for _, w := range strings.Fields(f) {
		if strings.ContainsAny(w, "%(=") {
			continue
		}
		w = strings.Trim(w, ":,.;")
		if w == "" {
			continue
		}
		if b.Len() > 0 {
			b.WriteByte('-')
		}
		b.WriteString(w)
		words++
		if words >= 6 {
			break
		}
	}
	return b.String()
}

// clone returns an independent copy of the model state.
func (m *Model) clone() *Model {
	c := *m
	if m.cwd != nil {
		cw := *m.cwd
		cw.remaining = map[string]bool{}
		for k, v := range m.cwd.remaining {
			cw.remaining[k] = v
		}
		c.cwd = &cw
	}
	if m.files != nil {
		c.files = map[string][]byte{}
		for k, v := range m.files {
			c.files[k] = v
		}
	}
	return &c
}

// Fail advances the state as if req had been answered with its failure form (used under injected faults).
func (m *Model) Fail(req Req) {
	switch req.Op {
	case opOpenFile:
		m.ro = nil
	case opOpenDir:
		if m.cwd != nil {
			m.cwd.optional = true
			m.cwd.fuzzy = true
		}
	case opReadDirEntry, opReadDirEntryV2, opReadDir:
		if m.cwd != nil {
			m.cwd.optional = true
			m.cwd.fuzzy = true
		}
	case opCreateFile:
		if m.wo != "" {
			delete(m.files, m.wo)
		}
		delete(m.files, m.real(req.Path))
		m.wo = ""
	case opWriteFile:
		delete(m.files, m.wo)
	}
}

// isFailureForm reports whether resp is the opcode's protocol failure answer.
func isFailureForm(req Req, resp []byte) bool {
	switch req.Op {
	case opReadDirEntry:
		return isEndMarker(resp, false)
	case opReadDirEntryV2:
		return isEndMarker(resp, true)
	case opReadDir:
		return len(resp) == 8 && be64(resp) == 0
	case opWriteFile, opReadFile:
		return len(resp) == 4 && int32(be32(resp)) == -1
	case opGetDirSize:
		return len(resp) == 8 && int64(be64(resp)) == -1
	}
	return failureForm(req.Op, resp)
}

// AbstractKey canonicalises the protocol-relevant state of the connection as the reference model sees it.
// Used to merge histories in the deep explicit-state search (a wrong merge can only lose coverage).
func (m *Model) AbstractKey() string {
	var b strings.Builder
	if m.cwd == nil {
		b.WriteString("cwd:-")
	} else {
		fmt.Fprintf(&b, "cwd:%s|%v|%v|%v", m.cwd.real, keysAll(m.cwd.remaining), m.cwd.fuzzy, m.cwd.optional)
	}
	switch {
	case m.ro == nil:
		b.WriteString(";ro:-")
	case m.ro.undefined:
		b.WriteString(";ro:undef")
	default:
		fmt.Fprintf(&b, ";ro:%s", m.ro.desc)
	}
	fmt.Fprintf(&b, ";wo:%s;opt:%v;cur:%d", m.wo, m.roOptional, m.lastEnd)
	return b.String()
}

func keysAll(m map[string]bool) []string {
	var k []string
	for s := range m {
		k = append(k, s)
	}
	sort.Strings(k)
	return k
}
