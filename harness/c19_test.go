package verifh

import (
	"encoding/json"
	"net"
	"net/http"
	"os"
	"path/filepath"
	"strings"
	"syscall"
	"testing"
	"time"
)

// C19: every setting works via flag, environment and INI file; flags win. Black-box over the real binary.

var c19Channels = []string{"flag", "env", "configflag", "configenv", "cwdini", "userini"}

type c19Setting struct {
	flag string
	env  string
	bad  []string
}

var c19Settings = []c19Setting{
	{"root", "PS3NETSRV_ROOT", []string{"/nonexistent/dir/for/verif"}},
	{"listen-addr", "PS3NETSRV_LISTEN_ADDR", nil},
	{"allow-write", "PS3NETSRV_ALLOW_WRITE", nil},
	{"client-whitelist", "PS3NETSRV_CLIENT_WHITELIST", []string{"not-an-address", "10.0.0.0/99", "10.0.0.9-10.0.0.1", "", "127.0.0.1-127.0.0.9-127.0.0.200", "127.0.0.0/8/24", "127.0.0.1,10.0.0.1"}},
	{"max-clients", "PS3NETSRV_MAX_CLIENTS", []string{"many", ""}},
	{"read-timeout", "PS3NETSRV_READ_TIMEOUT", []string{"soon", ""}},
	{"debug", "PS3NETSRV_DEBUG", nil},
	{"json-log", "PS3NETSRV_JSON_LOG", nil},
	{"debug-server-listen-addr", "PS3NETSRV_DEBUG_SERVER_LISTEN_ADDR", nil},
}

func freePort() string {
	l, err := net.Listen("tcp", "127.0.0.1:0")
	must(err)
	defer l.Close()
	return l.Addr().String()
}

type c19Env struct {
	base, home, cwd, rootA, rootB string
	portA, portB                  string
	srcIP                         string // source address of observation clients ("" = default)
	noHome                        bool   // start the server without HOME / XDG_CONFIG_HOME in its environment
	iniPad                        int    // > 0: configuration files carry this many bytes of comment lines before and inside [server]
	fifo                          bool   // --config / PS3NETSRV_CONFIG_FILE name a FIFO that a writer feeds (as with --config <(...))
	symlink                       bool   // every configuration file is a symbolic link to the real file kept elsewhere (dotfile managers, /etc alternatives)
}

func newC19Env(base string) *c19Env {
	e := &c19Env{base: base, home: filepath.Join(base, "home"), cwd: filepath.Join(base, "cwd"), rootA: filepath.Join(base, "rootA"), rootB: filepath.Join(base, "rootB")}
	for _, d := range []string{e.home, e.cwd, e.rootA, e.rootB, filepath.Join(e.home, "xdg", "ps3netsrv-go")} {
		must(os.MkdirAll(d, 0o755))
	}
	writeFileAbs(filepath.Join(e.rootA, "markerA"), []byte("A"), baseTime)
	writeFileAbs(filepath.Join(e.rootB, "markerB"), []byte("B"), baseTime)
	writeFileAbs(filepath.Join(e.cwd, "markerCwd"), []byte("C"), baseTime)
	e.portA, e.portB = freePort(), freePort()
	return e
}

// values returns (A, B, default-observation) for a setting.
func (e *c19Env) values(s string) (a, b string) {
	switch s {
	case "root":
		return e.rootA, e.rootB
	case "listen-addr", "debug-server-listen-addr":
		return e.portA, e.portB
	case "allow-write", "debug", "json-log":
		return "true", "false"
	case "client-whitelist":
		return "127.0.0.2", "127.0.0.3"
	case "max-clients":
		return "1", "2"
	case "read-timeout":
		return "1s", "10m"
	}
	return "", ""
}

type c19Assign struct {
	Channel string `json:"channel"`
	Setting string `json:"setting"`
	Value   string `json:"value"`
}

// start launches the server with the given assignments.
func (e *c19Env) start(assigns []c19Assign, wait time.Duration) (*BinSrv, error) {
	args := []string{"server"}
	env := cleanEnv(e.home)
	if e.noHome {
		env = []string{"PATH=/usr/bin:/bin", "TMPDIR=" + e.home}
	}
	ini := map[string][]string{}
	hasListen := false
	for _, a := range assigns {
		if a.Setting == "listen-addr" {
			hasListen = true
		}
		var envName string
		for _, s := range c19Settings {
			if s.flag == a.Setting {
				envName = s.env
			}
		}
		switch a.Channel {
		case "flag":
			args = append(args, "--"+a.Setting+"="+a.Value)
		case "env":
			env = append(env, envName+"="+a.Value)
		default:
			ini[a.Channel] = append(ini[a.Channel], a.Setting+" = "+a.Value)
		}
	}
	if !hasListen {
		args = append(args, "--listen-addr=127.0.0.1:0")
	}
	os.Remove(filepath.Join(e.cwd, "config.ini"))
	os.Remove(filepath.Join(e.home, "xdg", "ps3netsrv-go", "config.ini"))
	pre := []string{}
	var fifos []string
	for ch, lines := range ini {
		content := "[server]\n" + strings.Join(lines, "\n") + "\n"
		if e.iniPad > 0 {
			pad := strings.Repeat("; a comment line, as found in a generously documented configuration file\n", e.iniPad/72+1)
			content = pad + "\n[server]\n" + pad + strings.Join(lines, "\n") + "\n" + pad
		}
		switch ch {
		case "configflag":
			p := filepath.Join(e.base, "flag.ini")
			fifos = append(fifos, e.writeConfig(p, content)...)
			pre = append(pre, "--config="+p)
		case "configenv":
			p := filepath.Join(e.base, "env.ini")
			fifos = append(fifos, e.writeConfig(p, content)...)
			env = append(env, "PS3NETSRV_CONFIG_FILE="+p)
		case "cwdini":
			must(os.WriteFile(filepath.Join(e.cwd, "config.ini"), []byte(content), 0o644))
			e.linkify(filepath.Join(e.cwd, "config.ini"))
		case "userini":
			must(os.WriteFile(filepath.Join(e.home, "xdg", "ps3netsrv-go", "config.ini"), []byte(content), 0o644))
			e.linkify(filepath.Join(e.home, "xdg", "ps3netsrv-go", "config.ini"))
		}
	}
	args = append(pre, args...)
	b, err := startBin(args, env, e.cwd, filepath.Join(e.base, "server.log"), wait)
	// a writer whose FIFO was never opened by the server is still blocked in open(2): release it
	for _, p := range fifos {
		if f, err := os.OpenFile(p, os.O_RDONLY|syscall.O_NONBLOCK, 0); err == nil {
			time.Sleep(20 * time.Millisecond)
			f.Close()
		}
	}
	return b, err
}

// linkify moves a configuration file elsewhere and leaves a symbolic link (relative for every other file) in its place.
func (e *c19Env) linkify(p string) {
	if !e.symlink {
		return
	}
	store := filepath.Join(e.base, "dotfiles")
	must(os.MkdirAll(store, 0o755))
	real := filepath.Join(store, sprintf("%x.ini", h64(p)))
	must(os.Rename(p, real))
	target := real
	if h64(p)%2 == 0 {
		if rel, err := filepath.Rel(filepath.Dir(p), real); err == nil {
			target = rel
		}
	}
	must(os.Symlink(target, p))
}

// writeConfig stores a configuration file; with e.fifo it is a FIFO fed by a writer goroutine (what a shell's
// process substitution gives the server). Returns the FIFO paths created.
func (e *c19Env) writeConfig(p, content string) []string {
	os.Remove(p)
	if !e.fifo {
		must(os.WriteFile(p, []byte(content), 0o644))
		e.linkify(p)
		return nil
	}
	must(syscall.Mkfifo(p, 0o644))
	go func() {
		f, err := os.OpenFile(p, os.O_WRONLY, 0) // blocks until a reader opens the FIFO
		if err != nil {
			return
		}
		f.Write([]byte(content))
		f.Close()
	}()
	return []string{p}
}

// observe returns the effective value of a setting as seen from outside.
func (e *c19Env) observe(b *BinSrv, setting string, expect string) (got string, note string) {
	const tmo = 20 * time.Second
	switch setting {
	case "root":
		c, err := dialFrom(b.Addr, e.srcIP, tmo)
		if err != nil {
			return "unreachable", err.Error()
		}
		defer c.Close()
		for _, m := range []struct{ p, v string }{{"/markerA", e.rootA}, {"/markerB", e.rootB}, {"/markerCwd", "default"}} {
			if ok, ex, _ := c.statProbe(m.p, tmo); ok && ex {
				return m.v, ""
			}
		}
		return "unknown-root", ""
	case "listen-addr":
		c, err := dialFrom(b.Addr, e.srcIP, tmo)
		if err != nil {
			return "unreachable", err.Error()
		}
		defer c.Close()
		if ok, _, _ := c.statProbe("/", tmo); !ok {
			return "not-serving", ""
		}
		return b.Addr, ""
	case "allow-write":
		c, err := dialFrom(b.Addr, e.srcIP, tmo)
		if err != nil {
			return "unreachable", err.Error()
		}
		defer c.Close()
		resp, err := c.exchange(mkReq(opMkdir, sprintf("/mk%d", time.Now().UnixNano())), 4, tmo)
		if err != nil || len(resp) != 4 {
			return "no-answer", ""
		}
		if int32(be32(resp)) == 0 {
			return "true", ""
		}
		return "false", ""
	case "client-whitelist":
		served := func(ip string) bool {
			c, err := dialFrom(b.Addr, ip, tmo)
			if err != nil {
				return false
			}
			defer c.Close()
			ok, _, _ := c.statProbe("/", 5*time.Second)
			return ok
		}
		s2, s3 := served("127.0.0.2"), served("127.0.0.3")
		switch {
		case s2 && !s3:
			return "127.0.0.2", ""
		case s3 && !s2:
			return "127.0.0.3", ""
		case s2 && s3:
			return "default", ""
		}
		return "nobody-served", ""
	case "max-clients":
		measure := func(grace time.Duration) int {
			var cs []*tcpClient
			defer func() {
				for _, c := range cs {
					c.Close()
				}
			}()
			n := 0
			for i := 0; i < 3; i++ {
				c, err := dialFrom(b.Addr, e.srcIP, tmo)
				if err != nil {
					break
				}
				cs = append(cs, c)
				if ok, _, _ := c.statProbe("/", grace); !ok {
					break
				}
				n++
			}
			return n
		}
		n := measure(2 * time.Second)
		want := map[string]int{"1": 1, "2": 2, "default": 3}[expect]
		if n < want {
			n = measure(12 * time.Second) // absence under load proves nothing: look again with a long grace
		}
		if n >= 3 {
			return "default", ""
		}
		return sprintf("%d", n), ""
	case "read-timeout":
		c, err := dialFrom(b.Addr, e.srcIP, tmo)
		if err != nil {
			return "unreachable", err.Error()
		}
		defer c.Close()
		wait := 3 * time.Second
		if expect == "1s" {
			wait = 40 * time.Second
		}
		start := time.Now()
		_, err = c.readN(1, wait)
		if err != nil && !isTimeout(err) {
			if time.Since(start) < 900*time.Millisecond {
				return "cut-early", sprintf("idle connection cut after %v", time.Since(start))
			}
			return "1s", ""
		}
		return "10m", ""
	case "debug":
		c, err := dialFrom(b.Addr, e.srcIP, tmo)
		if err != nil {
			return "unreachable", err.Error()
		}
		c.statProbe("/", tmo)
		c.Close()
		time.Sleep(100 * time.Millisecond)
		l := b.Log()
		if strings.Contains(l, "DBG") || strings.Contains(l, `"level":"DEBUG"`) {
			return "true", ""
		}
		return "false", ""
	case "json-log":
		first := strings.SplitN(strings.TrimSpace(b.Log()), "\n", 2)[0]
		var v map[string]any
		if json.Unmarshal([]byte(first), &v) == nil {
			return "true", ""
		}
		return "false", ""
	case "debug-server-listen-addr":
		for _, p := range []string{e.portA, e.portB} {
			cl := http.Client{Timeout: 5 * time.Second}
			for try := 0; try < 20; try++ {
				resp, err := cl.Get("http://" + p + "/debug/pprof/")
				if err == nil {
					resp.Body.Close()
					if resp.StatusCode == 200 {
						return p, ""
					}
					break
				}
				if try > 2 && p != expect {
					break
				}
				time.Sleep(100 * time.Millisecond)
			}
		}
		return "default", ""
	}
	return "?", ""
}

func TestC19(t *testing.T) {
	r := NewReporter(t)
	defer r.Done()
	r.Rule("9 settings x 6 channels (flag, environment variable, --config file, PS3NETSRV_CONFIG_FILE file, ./config.ini, user config dir) alone; command-line flag vs every other channel with a conflicting value; malformed values of whitelist / max-clients / root / read-timeout on every channel; 29 alternative spellings of numbers, durations and booleans (leading zeros, radix prefixes, digit separators, unit-less durations, on/yes/t) and 11 root directory names that look like syntax ($, ${}, %, ~, spaces, =, backslashes) x 5 channels with the flag as reference: same effect or same refusal everywhere; configuration files with 3000 / 5000 / 70000 bytes of comment lines around the keys; --config naming a FIFO; every configuration file location holding a symbolic link to the real file; every case is one start of the real binary whose behaviour is observed from outside; oracle: flag wins, otherwise the single channel has its effect; malformed -> non-zero exit and never listening; distinct by (setting, channel assignment)")
	base := filepath.Join(scratchBase(), sprintf("verifh-c19-%d", os.Getpid()))
	defer os.RemoveAll(base)
	type tc struct {
		noHome  bool
		iniPad  int
		fifo    bool
		symlink bool
		name    string
		assigns []c19Assign
		setting string
		expect  string
		bad     bool
	}
	var cases []tc
	for _, s := range c19Settings {
		for _, ch := range c19Channels {
			cases = append(cases, tc{name: sprintf("%s via %s", s.flag, ch), setting: s.flag, expect: "A", assigns: []c19Assign{{ch, s.flag, "A"}}})
		}
		for _, ch := range c19Channels[1:] {
			cases = append(cases, tc{name: sprintf("%s: flag vs %s", s.flag, ch), setting: s.flag, expect: "A", assigns: []c19Assign{{"flag", s.flag, "A"}, {ch, s.flag, "B"}}})
		}
		for _, bad := range s.bad {
			for _, ch := range c19Channels {
				cases = append(cases, tc{name: sprintf("%s malformed %q via %s", s.flag, bad, ch), setting: s.flag, bad: true, assigns: []c19Assign{{ch, s.flag, bad}}})
			}
		}
		// absent: the documented default
		cases = append(cases, tc{name: sprintf("%s absent", s.flag), setting: s.flag, expect: "default"})
	}
	// the same channels when the user configuration directory cannot be determined (no HOME, no XDG_CONFIG_HOME)
	for _, ch := range []string{"flag", "env", "configflag", "configenv", "cwdini"} {
		cases = append(cases, tc{noHome: true, name: "json-log via " + ch + " without HOME", setting: "json-log", expect: "A", assigns: []c19Assign{{ch, "json-log", "A"}}})
		cases = append(cases, tc{noHome: true, name: "allow-write via " + ch + " without HOME", setting: "allow-write", expect: "A", assigns: []c19Assign{{ch, "allow-write", "A"}}})
		cases = append(cases, tc{noHome: true, name: "client-whitelist malformed via " + ch + " without HOME", setting: "client-whitelist", bad: true, assigns: []c19Assign{{ch, "client-whitelist", "not-an-address"}}})
	}
	// long configuration files (keys far behind the start of the file): same effect, same refusal
	for _, pad := range []int{3000, 5000, 70000} {
		for _, ch := range []string{"configflag", "configenv", "cwdini", "userini"} {
			if pad != 5000 && ch != "configflag" && ch != "userini" {
				continue
			}
			cases = append(cases, tc{iniPad: pad, name: sprintf("json-log via %s in a file with %d bytes of comments", ch, pad), setting: "json-log", expect: "A", assigns: []c19Assign{{ch, "json-log", "A"}}})
			cases = append(cases, tc{iniPad: pad, name: sprintf("allow-write via %s in a file with %d bytes of comments", ch, pad), setting: "allow-write", expect: "A", assigns: []c19Assign{{ch, "allow-write", "A"}}})
			cases = append(cases, tc{iniPad: pad, name: sprintf("client-whitelist via %s in a file with %d bytes of comments", ch, pad), setting: "client-whitelist", expect: "A", assigns: []c19Assign{{ch, "client-whitelist", "A"}}})
			for _, bad := range [][2]string{{"client-whitelist", "not-an-address"}, {"max-clients", "many"}, {"read-timeout", "soon"}, {"root", "/nonexistent/dir/for/verif"}} {
				cases = append(cases, tc{iniPad: pad, name: sprintf("%s malformed via %s in a file with %d bytes of comments", bad[0], ch, pad), setting: bad[0], bad: true, assigns: []c19Assign{{ch, bad[0], bad[1]}}})
			}
		}
	}
	// configuration files that are symbolic links to the real file (dotfile managers): same effect, same refusal
	for _, ch := range []string{"configflag", "configenv", "cwdini", "userini"} {
		cases = append(cases, tc{symlink: true, name: "json-log via " + ch + " (symbolic link)", setting: "json-log", expect: "A", assigns: []c19Assign{{ch, "json-log", "A"}}})
		cases = append(cases, tc{symlink: true, name: "client-whitelist via " + ch + " (symbolic link)", setting: "client-whitelist", expect: "A", assigns: []c19Assign{{ch, "client-whitelist", "A"}}})
		cases = append(cases, tc{symlink: true, name: "root via " + ch + " (symbolic link)", setting: "root", expect: "A", assigns: []c19Assign{{ch, "root", "A"}}})
		cases = append(cases, tc{symlink: true, name: "client-whitelist malformed via " + ch + " (symbolic link)", setting: "client-whitelist", bad: true, assigns: []c19Assign{{ch, "client-whitelist", "not-an-address"}}})
		cases = append(cases, tc{symlink: true, name: "allow-write: flag vs " + ch + " (symbolic link)", setting: "allow-write", expect: "A", assigns: []c19Assign{{"flag", "allow-write", "A"}, {ch, "allow-write", "B"}}})
	}
	// the configuration file is a stream (FIFO, as with --config <(...)): no size, not seekable, read once
	// (only --config: the default locations and PS3NETSRV_CONFIG_FILE go through kong.Configuration, which opens every
	// candidate twice - an existence probe, then the load - and therefore cannot consume a stream; that is the
	// library's documented way of probing optional files, not something the property promises)
	for _, ch := range []string{"configflag"} {
		cases = append(cases, tc{fifo: true, name: "json-log via " + ch + " (FIFO)", setting: "json-log", expect: "A", assigns: []c19Assign{{ch, "json-log", "A"}}})
		cases = append(cases, tc{fifo: true, name: "allow-write via " + ch + " (FIFO)", setting: "allow-write", expect: "A", assigns: []c19Assign{{ch, "allow-write", "A"}}})
		cases = append(cases, tc{fifo: true, name: "allow-write: flag vs " + ch + " (FIFO)", setting: "allow-write", expect: "A", assigns: []c19Assign{{"flag", "allow-write", "A"}, {ch, "allow-write", "B"}}})
		for _, bad := range [][2]string{{"client-whitelist", "not-an-address"}, {"max-clients", "many"}, {"read-timeout", "soon"}} {
			cases = append(cases, tc{fifo: true, name: sprintf("%s malformed via %s (FIFO)", bad[0], ch), setting: bad[0], bad: true, assigns: []c19Assign{{ch, bad[0], bad[1]}}})
		}
	}
	// two configuration files present at once, each carrying a different setting: both must have their effect
	filePairs := [][2]string{{"userini", "cwdini"}, {"cwdini", "configenv"}, {"userini", "configflag"}, {"configenv", "userini"}, {"configflag", "cwdini"}}
	twoSettings := [][2]string{{"allow-write", "json-log"}, {"client-whitelist", "allow-write"}, {"max-clients", "debug"}, {"root", "allow-write"}}
	for _, fp := range filePairs {
		for _, ts := range twoSettings {
			for oi, obs := range []string{ts[0], ts[1]} {
				cases = append(cases, tc{name: sprintf("%s in %s and %s in %s (observing %s)", ts[0], fp[0], ts[1], fp[1], obs), setting: obs, expect: "A",
					assigns: []c19Assign{{fp[0], ts[0], "A"}, {fp[1], ts[1], "A"}}})
				_ = oi
			}
		}
	}
	// every pair of settings given together (flags): each must still have its own effect (wiring interactions,
	// e.g. whitelist + client limit)
	for i, s1 := range c19Settings {
		for _, s2 := range c19Settings[i+1:] {
			if s1.flag == "listen-addr" && s2.flag == "debug-server-listen-addr" {
				continue // both take the A port
			}
			for _, obs := range []string{s1.flag, s2.flag} {
				cases = append(cases, tc{name: sprintf("%s together with %s (observing %s)", s1.flag, s2.flag, obs), setting: obs, expect: "A",
					assigns: []c19Assign{{"flag", s1.flag, "A"}, {"flag", s2.flag, "A"}}})
			}
		}
	}
	for i, c := range cases {
		if !r.Mine(i) {
			continue
		}
		if r.TimeUp() {
			break
		}
		os.RemoveAll(base)
		e := newC19Env(base)
		e.noHome = c.noHome
		e.iniPad = c.iniPad
		e.fifo = c.fifo
		e.symlink = c.symlink
		a, _ := e.values(c.setting)
		var assigns []c19Assign
		for _, x := range c.assigns {
			xa, xb := e.values(x.Setting)
			if x.Setting == "debug-server-listen-addr" && c.setting != x.Setting {
				xa = e.portB // keep port A free for a listen-addr given at the same time
			}
			if x.Setting == "read-timeout" && c.setting != x.Setting {
				xa = "5m" // a companion read-timeout must not cut the observation clients
			}
			if x.Setting == "client-whitelist" && c.setting != x.Setting && x.Value == "A" {
				e.srcIP = xa // observe through a whitelisted source address
			}
			switch x.Value {
			case "A":
				x.Value = xa
			case "B":
				x.Value = xb
			}
			assigns = append(assigns, x)
		}
		expect := c.expect
		switch expect {
		case "A":
			expect = a
		case "default":
			switch c.setting {
			case "allow-write", "debug", "json-log":
				expect = "false"
			case "read-timeout":
				expect = "10m"
			case "listen-addr":
				continue // default 0.0.0.0:38008 would collide between parallel probes: not started
			}
		}
		r.State(c.name)
		r.Nontrivial(c.name)
		r.Eval(1)
		rep := map[string]any{"case": c.name, "assignments": assigns}
		b, err := e.start(assigns, 30*time.Second)
		r.Transition(1)
		if c.bad {
			// must exit non-zero without ever listening
			if err == nil {
				r.Outcome("malformed-accepted")
				r.Violation("C19:malformed-accepted:"+c.setting+":"+c.assigns[0].Channel, sprintf("%s: the server started and listens on %s although the value is invalid", c.name, b.Addr), rep)
				b.Stop()
				continue
			}
			if !b.Exited() {
				b.Stop()
				r.Outcome("malformed-hang")
				r.Violation("C19:malformed-neither-exits-nor-listens:"+c.setting, c.name+": the server neither exited nor listened within 30 s", rep)
				continue
			}
			if b.ExitCode() == 0 {
				r.Outcome("malformed-exit0")
				r.Violation("C19:malformed-exit-zero:"+c.setting, c.name+": exit status 0", rep)
				continue
			}
			r.Outcome("malformed-refused")
			continue
		}
		if err != nil {
			log := ""
			if b != nil {
				log = lastLines(b.Log(), 4)
				b.Stop()
			}
			if strings.Contains(log, "address already in use") {
				r.Outcome("port-collision(retried-later)")
				continue
			}
			r.Outcome("start-failed")
			r.Violation("C19:start-failed:"+c.setting+":"+channelsOf(assigns), sprintf("%s: server did not start: %v | %s", c.name, err, log), rep)
			continue
		}
		if c.setting == "listen-addr" {
			if b.Addr != expect {
				r.Outcome("wrong-effect")
				r.Violation("C19:no-effect:listen-addr:"+channelsOf(assigns), sprintf("%s: listens on %s, want %s", c.name, b.Addr, expect), rep)
				b.Stop()
				continue
			}
		}
		got, note := e.observe(b, c.setting, expect)
		b.Stop()
		if got != expect && strings.Contains(b.Log(), "address already in use") {
			// a port picked as free was taken by a parallel probe before the server bound it: not a verdict
			r.Outcome("port-collision(not judged)")
			continue
		}
		if got != expect {
			r.Outcome("wrong-effect")
			r.Violation("C19:no-effect:"+c.setting+":"+channelsOf(assigns), sprintf("%s: observed %q, want %q %s", c.name, got, expect, note), rep)
		} else {
			r.Outcome("effect-ok:" + c.setting)
		}
		if i%37 == 0 {
			r.Sample(map[string]any{"case": c.name, "assignments": assigns, "observed": got})
		}
	}
	// spellings of one value: whatever a spelling means (or whether it is refused), it must mean the same on every
	// channel - "the same observable effect". The flag channel is the reference; nothing is assumed about which
	// spellings the program accepts.
	type spell struct{ setting, value string }
	var spells []spell
	for _, v := range []string{"02", "010", "0x2", "0b10", "1_0", "+2", "2.0", "1e1", "0o2"} {
		spells = append(spells, spell{"max-clients", v})
	}
	for _, v := range []string{"1000ms", "1000000000", "600", "1e9", "0x3B9ACA00", "01s", "1.0s", "1"} {
		spells = append(spells, spell{"read-timeout", v})
	}
	for _, v := range []string{"on", "yes", "1", "TRUE", "t", "y", "off", "0", "enabled"} {
		spells = append(spells, spell{"allow-write", v})
	}
	spells = append(spells, spell{"json-log", "on"}, spell{"json-log", "T"}, spell{"debug", "on"})
	// directory names that some layer between the channel and the option might take for syntax (variable references,
	// home-directory shorthand, escapes): the root is a directory of exactly that name on every channel
	for _, v := range []string{"ga$mes", "$RECYCLE.BIN", "a${HOME}b", "$HOME", "%TEMP%", "~games", "sp ace", "caf\u00e9 é", "a=b", "back\\slash", "100%"} {
		spells = append(spells, spell{"root", v})
	}
	outcome := func(sp spell, ch string, grace time.Duration) (string, map[string]any) {
		os.RemoveAll(base)
		e := newC19Env(base)
		assigns := []c19Assign{{ch, sp.setting, sp.value}}
		if sp.setting == "root" {
			dir := filepath.Join(base, "odd", sp.value)
			writeFileAbs(filepath.Join(dir, "markerA"), []byte("A"), baseTime)
			assigns[0].Value = dir
		}
		rep := map[string]any{"case": sprintf("%s = %q via %s", sp.setting, sp.value, ch), "assignments": assigns}
		b, err := e.start(assigns, 30*time.Second)
		r.Transition(1)
		if err != nil {
			if b != nil && b.Exited() && b.ExitCode() != 0 {
				return "refused", rep
			}
			if b != nil {
				b.Stop()
			}
			return "start-failed:" + err.Error(), rep
		}
		defer b.Stop()
		switch sp.setting {
		case "max-clients":
			var cs []*tcpClient
			defer func() {
				for _, c := range cs {
					c.Close()
				}
			}()
			n := 0
			for i := 0; i < 12; i++ {
				c, err := dialFrom(b.Addr, "", 20*time.Second)
				if err != nil {
					break
				}
				cs = append(cs, c)
				if ok, _, _ := c.statProbe("/", grace); !ok {
					break
				}
				n++
			}
			return sprintf("serves %d of 12 simultaneous clients", n), rep
		case "read-timeout":
			c, err := dialFrom(b.Addr, "", 20*time.Second)
			if err != nil {
				return "unreachable", rep
			}
			defer c.Close()
			start := time.Now()
			_, err = c.readN(1, grace+time.Second)
			switch d := time.Since(start); {
			case err == nil || isTimeout(err):
				return "idle connection kept", rep
			case d < 500*time.Millisecond:
				return "idle connection cut at once", rep
			default:
				return "idle connection cut after about a second", rep
			}
		}
		got, _ := e.observe(b, sp.setting, "true")
		return got, rep
	}
	for i, sp := range spells {
		if !r.Mine(len(cases)+i) || r.TimeUp() {
			continue
		}
		name := sprintf("spelling %s=%q", sp.setting, sp.value)
		r.State(name)
		r.Nontrivial(name)
		ref, _ := outcome(sp, "flag", 2*time.Second)
		for _, ch := range []string{"env", "configflag", "cwdini", "userini"} {
			r.Eval(1)
			got, rep := outcome(sp, ch, 2*time.Second)
			if got != ref {
				// absence under load proves nothing: measure both again with a long grace
				ref2, _ := outcome(sp, "flag", 12*time.Second)
				got, rep = outcome(sp, ch, 12*time.Second)
				ref = ref2
			}
			if strings.HasPrefix(got, "start-failed") || strings.HasPrefix(ref, "start-failed") {
				r.Outcome("spelling:not-judged")
				continue
			}
			if got != ref {
				r.Outcome("spelling:channels-differ")
				rep["as_flag"], rep["as_"+ch] = ref, got
				r.Violation("C19:spelling-differs-between-channels:"+sp.setting+":"+ch, sprintf("%s: as a flag: %s; via %s: %s", name, ref, ch, got), rep)
			} else {
				r.Outcome("spelling:same:" + strings.SplitN(got, " ", 2)[0])
			}
		}
	}
	r.Assume("observations over real loopback TCP with one-sided waits: absence of an answer is only concluded after a grace period and re-measured with a long grace before it counts; precedence among two non-flag channels is not constrained by the property and not checked")
}

func channelsOf(a []c19Assign) string {
	var s []string
	for _, x := range a {
		s = append(s, x.Channel)
	}
	if len(s) == 0 {
		return "absent"
	}
	return strings.Join(s, "+")
}
