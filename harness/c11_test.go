package verifh

import (
	"bytes"
	"encoding/hex"
	"io"
	"os"
	"path/filepath"
	"strings"
	"testing"

	"github.com/spf13/afero"

	pfs "github.com/xakep666/ps3netsrv-go/pkg/fs"
)

// C11: image-kind detection and key discovery pick the documented source.

var wmEnc = []byte{0x44, 0x6E, 0x63, 0x72, 0x79, 0x70, 0x74, 0x65, 0x64, 0x20, 0x33, 0x4B, 0x20, 0x42, 0x4C, 0x44}
var wmDec = []byte{0x45, 0x6E, 0x63, 0x72, 0x79, 0x70, 0x74, 0x65, 0x64, 0x20, 0x33, 0x4B, 0x20, 0x42, 0x4C, 0x44}

type c11Layout struct {
	DirName string `json:"dir"`
	Pos     int    `json:"pos"` // 0: /D/g  1: /D/s/g  2: /x/D/g
	Ext     string `json:"ext"`
	Key     string `json:"key"` // none adjacent redkey both adjbad redbad
	WM      string `json:"wm"`  // none enc dec
	Len     int    `json:"len"`
	Write   bool   `json:"write"`
	Table   int    `json:"table"`
}

func (l c11Layout) paths() (img, adj, red string) {
	base := "g"
	switch l.Pos {
	case 0:
		return "/" + l.DirName + "/" + base + l.Ext, "/" + l.DirName + "/" + base + ".dkey", "/REDKEY/" + base + ".dkey"
	case 1:
		return "/" + l.DirName + "/s/" + base + l.Ext, "/" + l.DirName + "/s/" + base + ".dkey", "/REDKEY/s/" + base + ".dkey"
	}
	return "/x/" + l.DirName + "/" + base + l.Ext, "/x/" + l.DirName + "/" + base + ".dkey", "/x/REDKEY/" + base + ".dkey"
}

func zeroMask(b []byte) []byte {
	out := append([]byte{}, b...)
	for i := 0xF70; i < 0x1070 && i < len(out); i++ {
		out[i] = 0
	}
	return out
}

func TestC11(t *testing.T) {
	r := NewReporter(t)
	defer r.Done()
	r.Rule("full product of directory-name case x nesting x extension case x key placement {none, adjacent, REDKEY, both (different keys), malformed adjacent, malformed REDKEY, a same-named key directly in REDKEY for an image in a subdirectory} x watermark {none, encrypted, decrypted} x file length around 0xF70..0x1070 x {read, write}; every layout read sequentially and positionally across the watermark borders, and again with every underlying Read capped at {1000, 7} (thorough: 2047, 1000, 16, 7, 1) bytes; key files changed between opens on one serving filesystem (all ordered pairs of placements); two connections opening images with different embedded keys / a key file / a plain file concurrently: all schedules with <= 2 (thorough 3) preemptions over connection and leaf filesystem operations, each stream equal to the stream of the script run alone; oracle = decision table written from the statement selecting one of {identity, redump decrypt, 3k3y decrypt+mask, mask}; distinct by layout")
	root := filepath.Join(scratchBase(), sprintf("verifh-c11-%d", os.Getpid()), "root")
	defer os.RemoveAll(filepath.Dir(root))
	tables := [][]uint32{{0, 2, 4, 5}, {0, 1, 4, 5}} // sector 3 encrypted / sectors 2-3 encrypted (tail of the 3k3y area is ciphertext on disk)
	k1, k2, kEmb := c10Keys[2], c10Keys[3], c10Keys[1]
	lens := []int{0xF6F, 0xF70, 0x106F, 0x1070, 0x1071, 6 * 2048}
	idx := 0
	for _, dn := range []string{"PS3ISO", "ps3iso", "Ps3Iso", "GAMES"} {
		for pos := 0; pos < 3; pos++ {
			for _, ext := range []string{".iso", ".ISO", ".Iso", ".bin"} {
				for _, ks := range []string{"none", "adjacent", "redkey", "both", "adjbad", "redbad", "redflat"} {
					if ks == "redflat" && pos != 1 {
						continue // a key of the same base name directly in REDKEY while the image lies in a subdirectory of PS3ISO: not the parallel place
					}
					for _, wm := range []string{"none", "enc", "dec"} {
						for _, ln := range lens {
							for _, wr := range []bool{false, true} {
								idx++
								if !r.Mine(idx) {
									continue
								}
								l := c11Layout{DirName: dn, Pos: pos, Ext: ext, Key: ks, WM: wm, Len: ln, Write: wr}
								for ti, pairs := range tables {
									if ti == 1 && (ln < 6*2048 || wm == "none" && ks == "none") {
										continue
									}
									l.Table = ti
									c11Run(r, root, l, pairs, k1, k2, kEmb)
								}
							}
						}
					}
				}
			}
		}
		if r.TimeUp() {
			break
		}
	}
	// key files that change between two opens on the same serving filesystem (a key is deleted, added beside the
	// image, moved to REDKEY): every open decides anew; every ordered pair of placements, watermark none / encrypted
	placements := []string{"none", "adjacent", "redkey", "both"}
	for _, wm := range []string{"none", "enc"} {
		for ai, a := range placements {
			for bi, b := range placements {
				idx++
				if a == b || !r.Mine(idx) {
					continue
				}
				_, _ = ai, bi
				c11KeyChange(r, root, a, b, wm, tables[0], k1, k2, kEmb)
			}
		}
	}
	// the key decision while other connections open other files at the same time (every open probes for a watermark
	// and a key): all schedules of two connections up to a preemption bound, each client's stream must equal the
	// stream of its script run alone (which the layouts above tie to the reference)
	{
		w := newWorld(t, "root")
		defer w.Cleanup()
		pairs := tables[0]
		for i, k := range [][]byte{kEmb, k2} {
			plain := patBytes(byte(41+i), 0, 6*2048)
			copy(plain, regionTable(pairs))
			copy(plain[0xF70:], wmEnc)
			copy(plain[0xF80:], k)
			w.Data(sprintf("k3/e%d.iso", i), buildEncImage(plain, pairs, k))
		}
		rd, _ := mkRedumpImage(6, pairs, k1, 7)
		w.Data("PS3ISO/r.iso", rd)
		w.Data("PS3ISO/r.dkey", []byte(hex.EncodeToString(k1)))
		w.File("plain.bin", 8192, 3)
		scs := []c12Scenario{
			{name: "embedded-key-next-to-plain-open", clients: [][]Req{
				{mkReq(opOpenFile, "/k3/e0.iso"), rdcReq(3*2048-5, 2100), rdReq(0xF60, 300)},
				{mkReq(opOpenFile, "/plain.bin"), rdReq(0xF00, 600), mkReq(opOpenFile, "/k3/e1.iso"), rdcReq(3*2048, 2048)}}},
			{name: "embedded-key-next-to-key-file", clients: [][]Req{
				{mkReq(opOpenFile, "/k3/e1.iso"), rdcReq(3*2048, 2048)},
				{mkReq(opOpenFile, "/PS3ISO/r.iso"), rdcReq(3*2048-1, 2050), mkReq(opOpenFile, "/k3/e0.iso"), rdReq(3*2048, 100)}}},
		}
		bound := 2
		if r.Thorough() {
			bound = 3
		}
		r.Extra("preemption_bound", bound)
		for _, sc := range scs {
			if !c12Explore(t, r, w.Root, sc, bound, "C11") {
				return
			}
		}
	}
	r.Assume("reference decryptor as in C10; 'below a PS3ISO directory' = some path element equals ps3iso case-insensitively; files shorter than the watermark area carrying a watermark are a don't-care between identity and the 3k3y transformation")
}

func c11Run(r *Reporter, root string, l c11Layout, pairs []uint32, k1, k2, kEmb []byte) {
	os.RemoveAll(root)
	must(os.MkdirAll(root, 0o755))
	imgP, adjP, redP := l.paths()
	// plaintext content
	plain := patBytes(byte(l.Len), 0, 6*2048)
	copy(plain, regionTable(pairs))
	// which key encrypts the image on disk
	var diskKey []byte
	isIso := strings.EqualFold(l.Ext, ".iso")
	below := strings.EqualFold(l.DirName, "ps3iso")
	switch {
	case l.WM == "enc":
		copy(plain[0xF70:], wmEnc)
		copy(plain[0xF80:], kEmb)
		diskKey = kEmb
	case l.WM == "dec":
		copy(plain[0xF70:], wmDec)
	}
	switch l.Key {
	case "adjacent", "both":
		diskKey = k1
	case "redkey":
		diskKey = k2
	}
	disk := plain
	if diskKey != nil {
		disk = buildEncImage(plain, pairs, diskKey)
	}
	disk = append([]byte{}, disk[:l.Len]...)
	writeFileAbs(filepath.Join(root, imgP), disk, baseTime)
	wkey := func(p string, k []byte, bad bool) {
		s := hex.EncodeToString(k)
		if bad {
			s = "zz" + s[2:20]
		}
		writeFileAbs(filepath.Join(root, p), []byte(s), baseTime)
	}
	switch l.Key {
	case "adjacent":
		wkey(adjP, k1, false)
	case "redkey":
		wkey(redP, k2, false)
	case "both":
		wkey(adjP, k1, false)
		wkey(redP, k2, false)
	case "adjbad":
		wkey(adjP, k1, true)
	case "redbad":
		wkey(redP, k2, true)
	case "redflat":
		wkey("/REDKEY/g.dkey", k2, false) // decoy: belongs to /PS3ISO/g.iso, not to /PS3ISO/s/g.iso
	}
	// ---- decision table (from the statement) ----
	type cand struct {
		name string
		ref  []byte
	}
	var admissible []cand
	failOK := false
	identity := cand{"identity", disk}
	keyApplies := isIso && below && l.Key != "none" && l.Key != "redflat"
	switch {
	case l.Write:
		admissible = []cand{identity}
	case keyApplies && (l.Key == "adjbad" || l.Key == "redbad"):
		admissible = []cand{identity}
		failOK = true
	case keyApplies:
		k := k1
		if l.Key == "redkey" {
			k = k2
		}
		admissible = []cand{{"redump", refDecryptImage(disk, pairs, k, false)}}
	case l.WM == "enc":
		c := cand{"3k3y-enc", zeroMask(refDecryptImage(disk, pairs, kEmb, false))}
		if l.Len >= 0x1070 {
			admissible = []cand{c}
		} else if l.Len >= 0xF80 {
			admissible = []cand{c, identity}
		} else {
			admissible = []cand{identity}
		}
	case l.WM == "dec":
		c := cand{"3k3y-dec", zeroMask(disk)}
		if l.Len >= 0x1070 {
			admissible = []cand{c}
		} else if l.Len >= 0xF80 {
			admissible = []cand{c, identity}
		} else {
			admissible = []cand{identity}
		}
	default:
		admissible = []cand{identity}
	}
	key := sprintf("%+v", l)
	r.State(key)
	r.Nontrivial(key)
	r.Eval(1)
	fsys := &pfs.FS{Fs: afero.NewBasePathFs(afero.NewOsFs(), root)}
	flags := os.O_RDONLY
	if l.Write {
		flags = os.O_RDWR | os.O_CREATE
	}
	var f afero.File
	var err error
	viol := func(sig, msg string) {
		r.Violation("C11:"+sig, sprintf("layout %+v (image %s): %s", l, imgP, msg), map[string]any{"layout": l, "image_path": imgP})
	}
	func() {
		defer func() {
			if p := recover(); p != nil {
				viol("open-panic", sprintf("FS.OpenFile panicked: %v", p))
				f = nil
				err = io.ErrUnexpectedEOF
			}
		}()
		f, err = fsys.OpenFile(imgP, flags, 0o644)
	}()
	r.Transition(1)
	if err != nil || f == nil {
		if failOK {
			r.Outcome("malformed-key-open-fails")
		} else {
			r.Outcome("open-failed")
			viol("open-failed", sprintf("open failed (%v), want %s", err, admissible[0].name))
		}
		return
	}
	defer f.Close()
	// full sequential read decides which admissible transformation is in effect
	var got []byte
	var rerr error
	func() {
		defer func() {
			if p := recover(); p != nil {
				rerr = io.ErrClosedPipe
				viol("read-panic", sprintf("sequential read panicked: %v", p))
			}
		}()
		got, rerr = io.ReadAll(f)
	}()
	r.Transition(1)
	if rerr != nil {
		if rerr != io.ErrClosedPipe {
			viol("read-error", "sequential read failed: "+rerr.Error())
		}
		return
	}
	var chosen *cand
	for i := range admissible {
		if bytes.Equal(got, admissible[i].ref) {
			chosen = &admissible[i]
			break
		}
	}
	if chosen == nil {
		// describe against every known transformation to say what was applied instead
		applied := "unknown transformation"
		for _, c := range []cand{identity, {"3k3y-mask-only", zeroMask(disk)}, {"redump(adjacent key)", refDecryptImage(disk, pairs, k1, false)},
			{"redump(REDKEY key)", refDecryptImage(disk, pairs, k2, false)}, {"3k3y(embedded key)", zeroMask(refDecryptImage(disk, pairs, kEmb, false))},
			{"decrypt(embedded key) without mask", refDecryptImage(disk, pairs, kEmb, false)}} {
			if bytes.Equal(got, c.ref) {
				applied = c.name
			}
		}
		r.Outcome("wrong-transformation")
		viol("wrong-transformation:want-"+admissible[0].name, sprintf("served bytes are '%s', want %s (%s)", applied, admissible[0].name, describeDiff(got, admissible[0].ref)))
		return
	}
	r.Outcome("served-" + chosen.name)
	// positional and cursor reads across the watermark borders
	st := &ioState{cur: int64(len(got))}
	for _, off := range []int64{0, 0x800, 0xF6F, 0xF70, 0xF71, 0xFFF, 0x1000, 0x106F, 0x1070, 0x1071, 0x17FF, 0x1800} {
		for _, n := range []int{1, 16, 255, 256, 257, 2048, 4096} {
			for _, op := range [][]ioOp{{{Kind: "readat", N: n, Off: off}}, {{Kind: "seek", Off: off, Whence: io.SeekStart}, {Kind: "read", N: n}}} {
				for _, o := range op {
					why, class := applyOp(f.(rsra), chosen.ref, st, o, nil)
					r.Transition(1)
					if why != "" {
						r.Outcome(class)
						viol(class+":"+chosen.name, why)
						return
					}
				}
			}
		}
	}
	// a refused seek must not move the position the masking is computed from
	for _, pos := range []int64{0xF00, 0xF71, 0x1000, 5} {
		for _, o := range []ioOp{{Kind: "seek", Off: pos, Whence: io.SeekStart}, {Kind: "read", N: 16}, {Kind: "seek", Off: -1, Whence: io.SeekStart}, {Kind: "read", N: 0x200}, {Kind: "seek", Off: -1 << 40, Whence: io.SeekCurrent}, {Kind: "read", N: 0x200}} {
			why, class := applyOp(f.(rsra), chosen.ref, st, o, nil)
			r.Transition(1)
			if why != "" {
				r.Outcome(class)
				viol("refused-seek:"+class+":"+chosen.name, why)
				return
			}
		}
	}
	// the same layout on a filesystem that returns short reads (at most cap bytes per Read): the same bytes, by
	// sequential read with several buffer sizes and after seeks
	if !l.Write {
		caps := []int{1000, 7}
		if r.Thorough() {
			caps = []int{2047, 1000, 16, 7, 1}
		}
		for _, cp := range caps {
			cp := cp
			leaf := newVFs(afero.NewOsFs(), "cap")
			leaf.record = false
			leaf.Hook = func(e FsEvent) *FsFault {
				if e.Op == "Read" && e.N > cp {
					return &FsFault{Short: cp}
				}
				return nil
			}
			cfs := &pfs.FS{Fs: afero.NewBasePathFs(leaf, root)}
			for _, bs := range []int{4096, 300, 65536} {
				cf, err := cfs.OpenFile(imgP, os.O_RDONLY, 0)
				r.Transition(1)
				if err != nil {
					viol("short-reads:open-failed", sprintf("with underlying reads capped at %d bytes the open fails (%v) although it succeeds otherwise", cp, err))
					return
				}
				var cgot []byte
				buf := make([]byte, bs)
				var cerr error
				for len(cgot) <= len(got)+bs {
					n, err := cf.Read(buf)
					cgot = append(cgot, buf[:n]...)
					if err != nil {
						if err != io.EOF {
							cerr = err
						}
						break
					}
				}
				if cerr == nil && bytes.Equal(cgot, got) {
					// cursor reads after seeks
					cst := &ioState{cur: int64(len(cgot))}
					for _, off := range []int64{0xF00, 0xF71, 0x1000, 0x106F, 5} {
						for _, o := range []ioOp{{Kind: "seek", Off: off, Whence: io.SeekStart}, {Kind: "read", N: 700}, {Kind: "read", N: 700}} {
							if why, class := applyOp(cf.(rsra), chosen.ref, cst, o, nil); why != "" {
								cf.Close()
								viol("short-reads:"+class+":"+chosen.name, sprintf("with underlying reads capped at %d bytes: %s", cp, why))
								return
							}
						}
					}
				}
				cf.Close()
				if cerr != nil {
					viol("short-reads:read-error", sprintf("with underlying reads capped at %d bytes a sequential read (buffer %d) fails: %v", cp, bs, cerr))
					return
				}
				if !bytes.Equal(cgot, got) {
					r.Outcome("short-reads-change-bytes")
					viol("short-reads:wrong-bytes:"+chosen.name, sprintf("with underlying reads capped at %d bytes a sequential read (buffer %d) returns other bytes than with full reads: %s", cp, bs, describeDiff(cgot, got)))
					return
				}
			}
		}
	}
	if l.Write {
		// pass-through must also write through
		if _, err := f.WriteAt([]byte("WXYZ"), 5); err != nil {
			viol("write-refused", "file opened for writing refused WriteAt: "+err.Error())
			return
		}
		now, _ := os.ReadFile(filepath.Join(root, imgP))
		want := append([]byte{}, disk...)
		if len(want) < 9 {
			want = append(want, make([]byte, 9-len(want))...)
		}
		copy(want[5:], "WXYZ")
		if !bytes.Equal(now, want) {
			viol("write-not-through", "WriteAt on a file opened for writing did not store the bytes on disk unchanged")
		}
	}
}

// c11KeyChange: image /PS3ISO/g.iso (encrypted under the adjacent key k1, or under the embedded key when it
// carries the 3k3y watermark); key placement a, open+read, placement b, open+read again on the same FS value.
func c11KeyChange(r *Reporter, root, a, b, wm string, pairs []uint32, k1, k2, kEmb []byte) {
	os.RemoveAll(root)
	must(os.MkdirAll(root, 0o755))
	plain := patBytes(77, 0, 6*2048)
	copy(plain, regionTable(pairs))
	diskKey := k1
	if wm == "enc" {
		copy(plain[0xF70:], wmEnc)
		copy(plain[0xF80:], kEmb)
		diskKey = kEmb
	}
	disk := buildEncImage(plain, pairs, diskKey)
	imgP, adjP, redP := "/PS3ISO/g.iso", "/PS3ISO/g.dkey", "/REDKEY/g.dkey"
	writeFileAbs(filepath.Join(root, imgP), disk, baseTime)
	place := func(p string) {
		os.Remove(filepath.Join(root, adjP))
		os.Remove(filepath.Join(root, redP))
		if p == "adjacent" || p == "both" {
			writeFileAbs(filepath.Join(root, adjP), []byte(hex.EncodeToString(k1)), baseTime)
		}
		if p == "redkey" || p == "both" {
			writeFileAbs(filepath.Join(root, redP), []byte(hex.EncodeToString(k2)), baseTime)
		}
	}
	expect := func(p string) ([]byte, string) {
		switch p {
		case "adjacent", "both":
			return refDecryptImage(disk, pairs, k1, false), "redump(adjacent key)"
		case "redkey":
			return refDecryptImage(disk, pairs, k2, false), "redump(REDKEY key)"
		}
		if wm == "enc" {
			return zeroMask(refDecryptImage(disk, pairs, kEmb, false)), "3k3y(embedded key)"
		}
		return disk, "identity"
	}
	fsys := &pfs.FS{Fs: afero.NewBasePathFs(afero.NewOsFs(), root)}
	key := sprintf("key change %s -> %s wm=%s", a, b, wm)
	r.State(key)
	r.Nontrivial(key)
	r.Eval(1)
	for step, p := range []string{a, b, a} {
		place(p)
		f, err := fsys.OpenFile(imgP, os.O_RDONLY, 0)
		r.Transition(1)
		if err != nil {
			r.Violation("C11:key-change:open-failed", sprintf("%s: open %d with key placement %s failed: %v", key, step, p, err), map[string]any{"from": a, "to": b, "watermark": wm})
			return
		}
		got, rerr := io.ReadAll(f)
		f.Close()
		want, name := expect(p)
		if rerr != nil || !bytes.Equal(got, want) {
			applied := "unknown transformation"
			for _, q := range placements4 {
				if w2, n2 := expect(q); bytes.Equal(got, w2) {
					applied = n2 + " (what placement " + q + " calls for)"
				}
			}
			r.Outcome("key-change-stale")
			r.Violation("C11:key-change:wrong-transformation", sprintf("%s: open %d (key files now: %s) serves '%s', want %s (read error %v)", key, step, p, applied, name, rerr), map[string]any{"from": a, "to": b, "watermark": wm, "open": step})
			return
		}
	}
	r.Outcome("key-change-followed")
}

var placements4 = []string{"none", "adjacent", "redkey", "both"}
