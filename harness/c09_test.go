package verifh

import (
	"io"
	"os"
	"path/filepath"
	"testing"
)

// C09: a generated image behaves as one fixed byte string under any Read/Seek/ReadAt sequence.

func c09Sizes() []int64 { return []int64{0, 1, 2047, 2048, 2049} }

func TestC09(t *testing.T) {
	r := NewReporter(t)
	defer r.Done()
	r.Rule("every tree with <= N nodes (file sizes 0,1,2047,2048,2049), both modes for a subset: canonical image = one sequential read; then all single ops and op sequences of depth <= 3 (Seek.Read.Read, Read.ReadAt.Read, relative/end seeks) over offsets = structural boundaries (metadata end, each file start/end/padded end, pad-area start, size) +-1 and lengths {1,2,2047,2048,2049,65536,65537, to-next-boundary +-1}; oracle = bytes.Reader semantics over the canonical image; distinct by (tree, mode, op sequence)")
	base := filepath.Join(scratchBase(), sprintf("verifh-c09-%d", os.Getpid()))
	root := filepath.Join(base, "root")
	defer os.RemoveAll(base)
	maxNodes := 3
	if r.Thorough() {
		maxNodes = 4
	}
	idx := 0
	for n := 0; n <= maxNodes; n++ {
		enumTrees(n, c09Sizes(), func(tr Tree) {
			idx++
			if !r.Mine(idx) || r.TimeUp() {
				return
			}
			modes := []bool{false}
			if idx%4 == 0 {
				modes = []bool{false, true}
			}
			for _, ps3 := range modes {
				c09Tree(r, root, tr, ps3, n >= 4)
			}
		})
	}
}

func c09Tree(r *Reporter, root string, tr Tree, ps3 bool, light bool) {
	os.RemoveAll(root)
	dir := filepath.Join(root, "T")
	must(os.MkdirAll(dir, 0o755))
	tr.Materialize(dir)
	if ps3 {
		writeFileAbs(filepath.Join(dir, "PS3_GAME", "PARAM.SFO"), mkSFO([]sfoKV{{"TITLE_ID", "BLES01234"}}), baseTime)
	}
	desc := sprintf("tree[%s] ps3=%v", tr.String(), ps3)
	r.State(desc)
	rep := func(ops []ioOp) map[string]any {
		return map[string]any{"tree": tr.Nodes, "ps3": ps3, "ops": ops}
	}
	v, err := openVISO(root, "/T", ps3)
	r.Transition(1)
	if err != nil {
		r.Outcome("create-failed")
		r.Violation("C09:create-failed", desc+": image creation failed: "+err.Error(), rep(nil))
		return
	}
	st, _ := v.Stat()
	announced := st.Size()
	img, err := canonicalImage(v, 1<<20, announced+4<<20)
	v.Close()
	if err != nil {
		r.Outcome("canonical-failed")
		r.Violation("C09:sequential-read-error", sprintf("%s: sequential read failed after %d bytes (announced size %d): %v", desc, len(img), announced, err), rep(nil))
		if int64(len(img)) < announced {
			return
		}
	}
	if int64(len(img)) != announced {
		r.Outcome("canonical-size-mismatch")
		r.Violation("C09:sequential-read-size", sprintf("%s: sequential read returned %d bytes, announced size is %d", desc, len(img), announced), rep(nil))
		if int64(len(img)) > announced {
			img = img[:announced]
		} else {
			return
		}
	}
	r.Nontrivial(desc)
	mask := isoVarMask(ps3) // a fresh view has fresh timestamps / random filler
	bounds := structuralBoundaries(img)
	var offs []int64
	for _, b := range bounds {
		for _, d := range []int64{-1, 0, 1} {
			if o := b + d; o >= 0 {
				offs = append(offs, o)
			}
		}
	}
	offs = uniqSorted(append(offs, announced+5000))
	lens := func(off int64) []int {
		ls := []int{1, 2, 2047, 2048, 2049, 65536, 65537, 1 << 20}
		if light {
			ls = []int{1, 2048, 2049, 65537, 1 << 20}
		}
		for _, b := range bounds {
			if b > off && b-off < 300000 {
				for _, d := range []int64{-1, 0, 1} {
					if n := b - off + d; n > 0 {
						ls = append(ls, int(n))
					}
				}
				if len(ls) > 16 {
					break
				}
			}
		}
		return ls
	}
	run := func(ops []ioOp) bool {
		view, err := openVISO(root, "/T", ps3)
		if err != nil {
			r.Violation("C09:reopen-failed", desc+": "+err.Error(), rep(ops))
			return false
		}
		defer view.Close()
		s := &ioState{}
		for i, op := range ops {
			why, class := applyOp(view, img, s, op, mask)
			r.Transition(1)
			r.Outcome(class)
			if why != "" {
				r.Violation("C09:"+class+":"+op.Kind, sprintf("%s ops=%v step %d: %s", desc, ops, i, why), rep(ops))
				return false
			}
		}
		r.Eval(1)
		return true
	}
	bad := 0
	for _, off := range offs {
		for _, n := range lens(off) {
			if !run([]ioOp{{Kind: "readat", N: n, Off: off}}) {
				bad++
			}
			if !run([]ioOp{{Kind: "seek", Off: off, Whence: io.SeekStart}, {Kind: "read", N: n}, {Kind: "read", N: 2049}}) {
				bad++
			}
			if bad > 12 {
				return
			}
		}
		if !light {
			for _, n1 := range []int{1, 2047, 2049, 65537} {
				for _, n2 := range []int{1, 2048, 65536} {
					run([]ioOp{{Kind: "seek", Off: off, Whence: io.SeekStart}, {Kind: "read", N: n1}, {Kind: "readat", N: 100, Off: 0}, {Kind: "read", N: n2}})
				}
			}
		}
		run([]ioOp{{Kind: "seek", Off: off - announced, Whence: io.SeekEnd}, {Kind: "read", N: 2049}})
		run([]ioOp{{Kind: "read", N: 3}, {Kind: "seek", Off: off - 3, Whence: io.SeekCurrent}, {Kind: "read", N: 2048}, {Kind: "seek", Off: -2048, Whence: io.SeekCurrent}, {Kind: "read", N: 2048}})
	}
	run([]ioOp{{Kind: "seek", Off: 0, Whence: io.SeekEnd}, {Kind: "read", N: 10}})
	run([]ioOp{{Kind: "seek", Off: -1, Whence: io.SeekEnd}, {Kind: "read", N: 10}, {Kind: "read", N: 10}})
	run([]ioOp{{Kind: "seek", Off: -1, Whence: io.SeekStart}})
	run([]ioOp{{Kind: "seek", Off: 10, Whence: io.SeekEnd}, {Kind: "read", N: 10}})
	// whole image with different buffer sizes
	for _, bs := range []int{512, 2048, 3000, 65536, 65537} {
		var ops []ioOp
		for i := int64(0); i <= announced/int64(bs)+1; i++ {
			ops = append(ops, ioOp{Kind: "read", N: bs})
		}
		run(ops)
	}
	if len(tr.Nodes) == 2 && !ps3 {
		r.Sample(map[string]any{"tree": tr.String(), "image_size": announced, "boundaries": bounds})
	}
}
