package verifh

import (
	"io"
	"io/fs"
	"os"
	"sort"
	"sync"
	"time"

	"github.com/spf13/afero"
)

// VFs is an instrumented afero.Fs wrapper: recorder (every op with its path), handle ledger (open/close),
// fault/short-read injection and scheduling hook. It wraps the real OsFs (leaf) or fs.FS (top).

type FsEvent struct {
	Seq    int    `json:"seq"`
	Op     string `json:"op"`
	Path   string `json:"path"`
	Handle int    `json:"h,omitempty"`
	N      int    `json:"n,omitempty"`
	Mut    bool   `json:"mut,omitempty"`
}

type FsFault struct {
	Err   error
	Short int // for Read: deliver at most this many bytes (>0)
}

type VFs struct {
	inner afero.Fs
	label string

	mu       sync.Mutex
	events   []FsEvent
	record   bool
	seq      int
	open     map[int]string // outstanding handles -> path
	peak     int            // largest number of simultaneously outstanding handles
	nextH    int
	opened   int
	closed   int
	dblClose int

	// Hook is called (without the lock) before every operation; a non-nil fault replaces/limits the operation.
	Hook func(ev FsEvent) *FsFault
	// After is called after data-carrying operations (Read, ReadAt) completed: a second scheduling point, so that a
	// preemption between "the buffer was filled" and "the caller looks at it" can be explored.
	After func(ev FsEvent)
	// SortDirs makes Readdir/Readdirnames(-1) results deterministic (sorted), then applies Perm if set.
	SortDirs bool
	Perm     func(n int) []int
	// EagerEOF makes files report io.EOF together with the last bytes (legal for io.Reader and io.ReaderAt; os files
	// report it only on the next call, other backends - archives, network filesystems, in-memory ones - at once).
	EagerEOF bool
}

func newVFs(inner afero.Fs, label string) *VFs {
	return &VFs{inner: inner, label: label, open: map[int]string{}, record: true}
}

func (v *VFs) ev(op, path string, h, n int, mut bool) *FsFault {
	v.mu.Lock()
	e := FsEvent{Seq: v.seq, Op: op, Path: path, Handle: h, N: n, Mut: mut}
	v.seq++
	if v.record && len(v.events) < 100000 {
		v.events = append(v.events, e)
	}
	hook := v.Hook
	v.mu.Unlock()
	if hook != nil {
		return hook(e)
	}
	return nil
}

func (v *VFs) Events() []FsEvent {
	v.mu.Lock()
	defer v.mu.Unlock()
	return append([]FsEvent{}, v.events...)
}
func (v *VFs) ResetEvents() { v.mu.Lock(); v.events = nil; v.mu.Unlock() }
func (v *VFs) Seq() int     { v.mu.Lock(); defer v.mu.Unlock(); return v.seq }
func (v *VFs) Outstanding() []string {
	v.mu.Lock()
	defer v.mu.Unlock()
	var out []string
	for _, p := range v.open {
		out = append(out, p)
	}
	sort.Strings(out)
	return out
}

// Peak returns the largest number of handles that were open at the same time.
func (v *VFs) Peak() int { v.mu.Lock(); defer v.mu.Unlock(); return v.peak }

func (v *VFs) Counts() (opened, closed, dbl int) {
	v.mu.Lock()
	defer v.mu.Unlock()
	return v.opened, v.closed, v.dblClose
}

func (v *VFs) wrap(f afero.File, path string) afero.File {
	v.mu.Lock()
	v.nextH++
	h := v.nextH
	v.open[h] = path
	if len(v.open) > v.peak {
		v.peak = len(v.open)
	}
	v.opened++
	v.mu.Unlock()
	return &VFile{File: f, v: v, h: h, path: path}
}

func isMutFlag(flag int) bool {
	return flag&(os.O_WRONLY|os.O_RDWR|os.O_APPEND|os.O_CREATE|os.O_TRUNC) != 0
}

func (v *VFs) Name() string { return "VFs(" + v.label + ")" }
func (v *VFs) Create(name string) (afero.File, error) {
	if f := v.ev("Create", name, 0, 0, true); f != nil && f.Err != nil {
		return nil, f.Err
	}
	f, err := v.inner.Create(name)
	if err != nil {
		return nil, err
	}
	return v.wrap(f, name), nil
}
func (v *VFs) Mkdir(name string, perm os.FileMode) error {
	if f := v.ev("Mkdir", name, 0, 0, true); f != nil && f.Err != nil {
		return f.Err
	}
	return v.inner.Mkdir(name, perm)
}
func (v *VFs) MkdirAll(name string, perm os.FileMode) error {
	if f := v.ev("MkdirAll", name, 0, 0, true); f != nil && f.Err != nil {
		return f.Err
	}
	return v.inner.MkdirAll(name, perm)
}
func (v *VFs) Open(name string) (afero.File, error) {
	if f := v.ev("Open", name, 0, 0, false); f != nil && f.Err != nil {
		return nil, f.Err
	}
	f, err := v.inner.Open(name)
	if err != nil {
		return nil, err
	}
	return v.wrap(f, name), nil
}
func (v *VFs) OpenFile(name string, flag int, perm os.FileMode) (afero.File, error) {
	if f := v.ev("OpenFile", name, 0, flag, isMutFlag(flag)); f != nil && f.Err != nil {
		return nil, f.Err
	}
	f, err := v.inner.OpenFile(name, flag, perm)
	if err != nil {
		return nil, err
	}
	return v.wrap(f, name), nil
}
func (v *VFs) Remove(name string) error {
	if f := v.ev("Remove", name, 0, 0, true); f != nil && f.Err != nil {
		return f.Err
	}
	return v.inner.Remove(name)
}
func (v *VFs) RemoveAll(name string) error {
	if f := v.ev("RemoveAll", name, 0, 0, true); f != nil && f.Err != nil {
		return f.Err
	}
	return v.inner.RemoveAll(name)
}
func (v *VFs) Rename(o, n string) error {
	if f := v.ev("Rename", o+" -> "+n, 0, 0, true); f != nil && f.Err != nil {
		return f.Err
	}
	return v.inner.Rename(o, n)
}
func (v *VFs) Stat(name string) (os.FileInfo, error) {
	if f := v.ev("Stat", name, 0, 0, false); f != nil && f.Err != nil {
		return nil, f.Err
	}
	return v.inner.Stat(name)
}
func (v *VFs) Chmod(name string, mode os.FileMode) error {
	if f := v.ev("Chmod", name, 0, 0, true); f != nil && f.Err != nil {
		return f.Err
	}
	return v.inner.Chmod(name, mode)
}
func (v *VFs) Chown(name string, uid, gid int) error {
	if f := v.ev("Chown", name, 0, 0, true); f != nil && f.Err != nil {
		return f.Err
	}
	return v.inner.Chown(name, uid, gid)
}
func (v *VFs) Chtimes(name string, a, m time.Time) error {
	if f := v.ev("Chtimes", name, 0, 0, true); f != nil && f.Err != nil {
		return f.Err
	}
	return v.inner.Chtimes(name, a, m)
}

// optional interfaces, passed through so that production behaviour (BasePathFs over OsFs) is unchanged
func (v *VFs) LstatIfPossible(name string) (os.FileInfo, bool, error) {
	if f := v.ev("Lstat", name, 0, 0, false); f != nil && f.Err != nil {
		return nil, false, f.Err
	}
	if l, ok := v.inner.(afero.Lstater); ok {
		return l.LstatIfPossible(name)
	}
	fi, err := v.inner.Stat(name)
	return fi, false, err
}
func (v *VFs) SymlinkIfPossible(o, n string) error {
	if f := v.ev("Symlink", n, 0, 0, true); f != nil && f.Err != nil {
		return f.Err
	}
	if l, ok := v.inner.(afero.Linker); ok {
		return l.SymlinkIfPossible(o, n)
	}
	return &os.LinkError{Op: "symlink", Old: o, New: n, Err: afero.ErrNoSymlink}
}
func (v *VFs) ReadlinkIfPossible(name string) (string, error) {
	if f := v.ev("Readlink", name, 0, 0, false); f != nil && f.Err != nil {
		return "", f.Err
	}
	if l, ok := v.inner.(afero.LinkReader); ok {
		return l.ReadlinkIfPossible(name)
	}
	return "", &os.PathError{Op: "readlink", Path: name, Err: afero.ErrNoReadlink}
}

type VFile struct {
	afero.File
	v      *VFs
	h      int
	path   string
	closed bool
}

func (f *VFile) Close() error {
	if ft := f.v.ev("Close", f.path, f.h, 0, false); ft != nil && ft.Err != nil {
		// even a failing close releases the descriptor (POSIX): close the inner one, report the error
		f.v.mu.Lock()
		if _, ok := f.v.open[f.h]; ok {
			delete(f.v.open, f.h)
			f.v.closed++
		}
		f.v.mu.Unlock()
		f.File.Close()
		return ft.Err
	}
	f.v.mu.Lock()
	if _, ok := f.v.open[f.h]; ok {
		delete(f.v.open, f.h)
		f.v.closed++
	} else {
		f.v.dblClose++
	}
	f.v.mu.Unlock()
	return f.File.Close()
}
func (f *VFile) Read(p []byte) (int, error) {
	ft := f.v.ev("Read", f.path, f.h, len(p), false)
	if ft != nil {
		if ft.Err != nil {
			return 0, ft.Err
		}
		if ft.Short > 0 && ft.Short < len(p) {
			p = p[:ft.Short]
		}
	}
	n, err := f.File.Read(p)
	if f.v.EagerEOF && n > 0 && err == nil {
		if fi, e1 := f.File.Stat(); e1 == nil && !fi.IsDir() {
			if pos, e2 := f.File.Seek(0, io.SeekCurrent); e2 == nil && pos >= fi.Size() {
				err = io.EOF
			}
		}
	}
	if f.v.After != nil {
		f.v.After(FsEvent{Op: "Read", Path: f.path, Handle: f.h, N: n})
	}
	return n, err
}
func (f *VFile) ReadAt(p []byte, off int64) (int, error) {
	if ft := f.v.ev("ReadAt", f.path, f.h, len(p), false); ft != nil && ft.Err != nil {
		return 0, ft.Err
	}
	n, err := f.File.ReadAt(p, off)
	if f.v.EagerEOF && n > 0 && err == nil {
		if fi, e1 := f.File.Stat(); e1 == nil && off+int64(n) >= fi.Size() {
			err = io.EOF
		}
	}
	if f.v.After != nil {
		f.v.After(FsEvent{Op: "ReadAt", Path: f.path, Handle: f.h, N: n})
	}
	return n, err
}
func (f *VFile) Seek(off int64, whence int) (int64, error) {
	if ft := f.v.ev("Seek", f.path, f.h, int(off&0x7fffffff), false); ft != nil && ft.Err != nil {
		return 0, ft.Err
	}
	return f.File.Seek(off, whence)
}
func (f *VFile) Write(p []byte) (int, error) {
	if ft := f.v.ev("Write", f.path, f.h, len(p), true); ft != nil && ft.Err != nil {
		if ft.Short > 0 && ft.Short < len(p) {
			// a partial write (disk full in the middle of the buffer): Short bytes are stored, then the error
			n, _ := f.File.Write(p[:ft.Short])
			return n, ft.Err
		}
		return 0, ft.Err
	}
	return f.File.Write(p)
}
func (f *VFile) WriteAt(p []byte, off int64) (int, error) {
	if ft := f.v.ev("WriteAt", f.path, f.h, len(p), true); ft != nil && ft.Err != nil {
		return 0, ft.Err
	}
	return f.File.WriteAt(p, off)
}
func (f *VFile) WriteString(s string) (int, error) {
	if ft := f.v.ev("WriteString", f.path, f.h, len(s), true); ft != nil && ft.Err != nil {
		return 0, ft.Err
	}
	return f.File.WriteString(s)
}
func (f *VFile) Truncate(n int64) error {
	if ft := f.v.ev("Truncate", f.path, f.h, int(n&0x7fffffff), true); ft != nil && ft.Err != nil {
		return ft.Err
	}
	return f.File.Truncate(n)
}
func (f *VFile) Sync() error {
	if ft := f.v.ev("Sync", f.path, f.h, 0, false); ft != nil && ft.Err != nil {
		return ft.Err
	}
	return f.File.Sync()
}
func (f *VFile) Stat() (os.FileInfo, error) {
	if ft := f.v.ev("Fstat", f.path, f.h, 0, false); ft != nil && ft.Err != nil {
		return nil, ft.Err
	}
	return f.File.Stat()
}
func (f *VFile) Readdir(n int) ([]os.FileInfo, error) {
	if ft := f.v.ev("Readdir", f.path, f.h, n, false); ft != nil && ft.Err != nil {
		return nil, ft.Err
	}
	fis, err := f.File.Readdir(n)
	if f.v.SortDirs && n <= 0 {
		sort.Slice(fis, func(i, j int) bool { return fis[i].Name() < fis[j].Name() })
		if f.v.Perm != nil {
			p := f.v.Perm(len(fis))
			out := make([]os.FileInfo, len(fis))
			for i, k := range p {
				out[i] = fis[k]
			}
			fis = out
		}
	}
	return fis, err
}
func (f *VFile) Readdirnames(n int) ([]string, error) {
	if ft := f.v.ev("Readdirnames", f.path, f.h, n, false); ft != nil && ft.Err != nil {
		return nil, ft.Err
	}
	names, err := f.File.Readdirnames(n)
	if f.v.SortDirs && n <= 0 {
		sort.Strings(names)
		if f.v.Perm != nil {
			p := f.v.Perm(len(names))
			out := make([]string, len(names))
			for i, k := range p {
				out[i] = names[k]
			}
			names = out
		}
	}
	return names, err
}

var _ afero.Fs = (*VFs)(nil)
var _ fs.FileInfo = (os.FileInfo)(nil)
