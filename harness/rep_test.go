package verifh

import (
	"bufio"
	"encoding/json"
	"fmt"
	"hash/fnv"
	"io"
	"log/slog"
	"os"
	"strconv"
	"strings"
	"sync"
	"sync/atomic"
	"testing"
	"time"
)

// Reporter writes JSON lines understood by /verif/check.
type Reporter struct {
	mu       sync.Mutex
	w        *bufio.Writer
	f        *os.File
	Tier     string
	Shard    int
	NShards  int
	Seed     int64
	Resume   int
	Replay   string
	start    time.Time
	deadline time.Time

	states      map[uint64]struct{}
	transitions int64
	evals       int64
	nontrivial  map[uint64]struct{}
	traces      int64
	outcomes    map[string]int64
	samples     []any
	notes       []string
	assume      []string
	extra       map[string]any
	extraConst  map[string]any
	rule        string
	exhaustive  bool
	nviol       int
	firstState  string
	finished    atomic.Bool
	curCase     int
	curSig      string
	curDesc     string
}

func TestMain(m *testing.M) {
	// the server and handler log through slog.Default(); keep it quiet and cheap
	slog.SetDefault(slog.New(slog.NewTextHandler(io.Discard, &slog.HandlerOptions{Level: slog.Level(100)})))
	os.Exit(m.Run())
}

func NewReporter(t *testing.T) *Reporter {
	r := &Reporter{Tier: os.Getenv("VERIF_TIER"), NShards: 1, start: time.Now(), exhaustive: true,
		states: map[uint64]struct{}{}, nontrivial: map[uint64]struct{}{}, outcomes: map[string]int64{}, extra: map[string]any{}, extraConst: map[string]any{}}
	if r.Tier == "" {
		r.Tier = "quick"
	}
	if s := os.Getenv("VERIF_SHARD"); s != "" {
		p := strings.Split(s, "/")
		r.Shard, _ = strconv.Atoi(p[0])
		r.NShards, _ = strconv.Atoi(p[1])
	}
	r.Seed, _ = strconv.ParseInt(os.Getenv("VERIF_SEED"), 10, 64)
	r.Resume, _ = strconv.Atoi(os.Getenv("VERIF_RESUME"))
	r.Replay = os.Getenv("VERIF_REPLAY")
	out := os.Getenv("VERIF_OUT")
	if out == "" {
		r.f = os.Stdout
	} else {
		f, err := os.OpenFile(out, os.O_CREATE|os.O_WRONLY|os.O_APPEND, 0o644)
		if err != nil {
			t.Fatal(err)
		}
		r.f = f
	}
	r.w = bufio.NewWriterSize(r.f, 1<<16)
	// internal deadline: end with exhaustive:false, exit 0
	dl := 240 * time.Second
	if r.Tier == "thorough" {
		dl = 40 * time.Minute
	}
	if s := os.Getenv("VERIF_DEADLINE"); s != "" {
		if n, err := strconv.Atoi(s); err == nil {
			dl = time.Duration(n) * time.Second
		}
	}
	r.deadline = r.start.Add(dl)
	go r.watchdog()
	return r
}

// watchdog runs outside any synctest bubble: if no case begins or finishes for a long wall-clock time the server
// code is spinning or stuck (a hang is a property violation, not a harness condition); the worker reports the
// case announced by the last Begin and exits so the driver can continue after it.
func (r *Reporter) watchdog() {
	// progress is a counter, not a timestamp: Tick may be called inside a synctest bubble whose clock is fake
	limit := 90 * time.Second
	last := globalProgress.Load()
	lastChange := time.Now()
	for {
		time.Sleep(2 * time.Second)
		if r.finished.Load() {
			return
		}
		if cur := globalProgress.Load(); cur != last {
			last, lastChange = cur, time.Now()
			continue
		}
		if time.Since(lastChange) > limit {
			r.mu.Lock()
			r.emit(map[string]any{"t": "hang", "case": r.curCase, "sig": r.curSig, "desc": r.curDesc})
			r.w.Flush()
			r.mu.Unlock()
			os.Exit(3)
		}
	}
}

// globalProgress is bumped by every completed protocol step (runSession, binary replay) and by the reporter's
// counters, so one long case (4096-entry directory enumerated entry by entry) is not mistaken for a hang.
var globalProgress atomic.Int64

func tick()               { globalProgress.Add(1) }
func (r *Reporter) Tick() { tick() }

func (r *Reporter) Thorough() bool { return r.Tier == "thorough" }

// Mine reports whether case index i belongs to this shard (and is not before the resume point).
func (r *Reporter) Mine(i int) bool {
	return i%r.NShards == r.Shard && i >= r.Resume
}

// TimeUp reports whether the internal deadline passed; marks the run non-exhaustive.
func (r *Reporter) TimeUp() bool {
	if time.Now().After(r.deadline) {
		r.mu.Lock()
		if r.exhaustive {
			r.exhaustive = false
			r.notes = append(r.notes, "internal deadline reached; remaining cases not explored")
		}
		r.mu.Unlock()
		return true
	}
	return false
}

func (r *Reporter) emit(v any) {
	b, err := json.Marshal(v)
	if err != nil {
		// a record must never be lost because some attachment cannot be serialised: keep its scalar fields, render
		// the rest as text and say so (the driver treats "marshal_error" as a harness error on top of the record)
		if m, ok := v.(map[string]any); ok {
			safe := map[string]any{"marshal_error": err.Error()}
			for k, x := range m {
				if _, e2 := json.Marshal(x); e2 == nil {
					safe[k] = x
				} else {
					safe[k] = fmt.Sprintf("%+v", x)
				}
			}
			b, err = json.Marshal(safe)
		}
		if err != nil {
			b, _ = json.Marshal(map[string]any{"t": "harness_error", "detail": "record could not be serialised: " + err.Error()})
		}
	}
	r.w.Write(b)
	r.w.WriteByte('\n')
}

// Begin marks the start of a crash-prone case; flushed so the driver can attribute a worker death.
func (r *Reporter) Begin(idx int, sig, desc string) {
	r.Tick()
	r.mu.Lock()
	r.curCase, r.curSig, r.curDesc = idx, sig, desc
	r.emit(map[string]any{"t": "begin", "case": idx, "sig": sig, "desc": desc})
	r.w.Flush()
	r.mu.Unlock()
}

func (r *Reporter) Violation(sig, detail string, replay any) {
	r.mu.Lock()
	defer r.mu.Unlock()
	r.nviol++
	if r.nviol > 3000 {
		return
	}
	r.emit(map[string]any{"t": "viol", "sig": sig, "detail": detail, "replay": replay})
	r.w.Flush()
}

func (r *Reporter) HarnessError(detail string) {
	r.mu.Lock()
	r.emit(map[string]any{"t": "harness_error", "detail": detail})
	r.w.Flush()
	r.mu.Unlock()
}

func h64(s string) uint64 {
	h := fnv.New64a()
	h.Write([]byte(s))
	return h.Sum64()
}

func (r *Reporter) State(key string) bool {
	r.mu.Lock()
	defer r.mu.Unlock()
	k := h64(key)
	if _, ok := r.states[k]; ok {
		return false
	}
	r.states[k] = struct{}{}
	if r.firstState == "" {
		r.firstState = key
	}
	return true
}
func (r *Reporter) Nontrivial(key string) {
	r.mu.Lock()
	r.nontrivial[h64(key)] = struct{}{}
	r.mu.Unlock()
}
func (r *Reporter) Transition(n int64) { r.Tick(); r.mu.Lock(); r.transitions += n; r.mu.Unlock() }
func (r *Reporter) Eval(n int64)       { r.mu.Lock(); r.evals += n; r.mu.Unlock() }
func (r *Reporter) Trace(n int64)      { r.mu.Lock(); r.traces += n; r.mu.Unlock() }
func (r *Reporter) Outcome(k string)   { r.mu.Lock(); r.outcomes[k]++; r.mu.Unlock() }
func (r *Reporter) Sample(v any) {
	r.mu.Lock()
	if len(r.samples) < 4 {
		r.samples = append(r.samples, v)
	}
	r.mu.Unlock()
}
func (r *Reporter) Note(s string)   { r.mu.Lock(); r.notes = append(r.notes, s); r.mu.Unlock() }
func (r *Reporter) Assume(s string) { r.mu.Lock(); r.assume = append(r.assume, s); r.mu.Unlock() }
func (r *Reporter) Rule(s string)   { r.mu.Lock(); r.rule = s; r.mu.Unlock() }

// Extra records a constant of the run (same in every shard); ExtraAdd a counter that is summed over the shards.
func (r *Reporter) Extra(k string, v any) { r.mu.Lock(); r.extraConst[k] = v; r.mu.Unlock() }
func (r *Reporter) ExtraAdd(k string, n int64) {
	r.mu.Lock()
	if v, ok := r.extra[k].(int64); ok {
		r.extra[k] = v + n
	} else {
		r.extra[k] = n
	}
	r.mu.Unlock()
}
func (r *Reporter) NotExhaustive(why string) {
	r.mu.Lock()
	r.exhaustive = false
	r.notes = append(r.notes, why)
	r.mu.Unlock()
}

func (r *Reporter) Done() {
	r.finished.Store(true)
	r.mu.Lock()
	defer r.mu.Unlock()
	if len(r.samples) == 0 && r.firstState != "" {
		r.samples = append(r.samples, map[string]any{"case": r.firstState})
	}
	r.emit(map[string]any{"t": "stat", "states": len(r.states), "transitions": r.transitions, "evaluations": r.evals,
		"distinct_nontrivial": len(r.nontrivial), "traces_validated_against_impl": r.traces,
		"outcomes": r.outcomes, "samples": r.samples, "notes": r.notes, "assumptions": r.assume,
		"rule": r.rule, "exhaustive": r.exhaustive, "extra": r.extra, "extra_const": r.extraConst})
	r.emit(map[string]any{"t": "done", "wall": time.Since(r.start).Seconds()})
	r.w.Flush()
	if r.f != os.Stdout {
		r.f.Close()
	}
}

func sprintf(f string, a ...any) string { return fmt.Sprintf(f, a...) }

var quietLogger = slog.New(slog.NewTextHandler(io.Discard, &slog.HandlerOptions{Level: slog.Level(100)}))

func (r *Reporter) exhaustiveOK() bool { r.mu.Lock(); defer r.mu.Unlock(); return r.exhaustive }

func sscan(s, f string, a ...any) { fmt.Sscanf(s, f, a...) }

func sprint(a ...any) string { return fmt.Sprint(a...) }
