package verifh

import (
	"bytes"
	"os"
	"os/exec"
	"path/filepath"
	"sort"
	"strings"
)

// anchorISOReader: the reference reader must read a third-party image shipped with the repository
// (internal/testutil/testdata/testimg.iso) and agree with bsdtar (libarchive) on its listing when bsdtar exists.
func anchorISOReader(r *Reporter) {
	repo := os.Getenv("VERIF_REPO")
	if repo == "" {
		repo = "/repo"
	}
	data, err := os.ReadFile(filepath.Join(repo, "internal", "testutil", "testdata", "testimg.iso"))
	if err != nil {
		r.Note("third-party anchor image not readable: " + err.Error())
		return
	}
	var p isoProblems
	pvd := parseVolDesc(memImage(data), 16, &p)
	if pvd.Type != 1 {
		r.HarnessError("reference ISO reader cannot find the PVD of the third-party anchor image")
		return
	}
	h := walkHierarchy(memImage(data), pvd, &p)
	var mine []string
	var walk func(n *isoNode, path string)
	walk = func(n *isoNode, path string) {
		for _, c := range n.Children {
			name := strings.TrimSuffix(strings.TrimSuffix(c.Name, ";1"), ".")
			mine = append(mine, strings.ToLower(path+name))
			if c.IsDir {
				walk(c, path+name+"/")
			}
		}
	}
	walk(h.Root, "")
	sort.Strings(mine)
	r.Extra("anchor_image_entries", len(mine))
	if len(mine) == 0 {
		r.HarnessError("reference ISO reader found no entries in the third-party anchor image")
		return
	}
	for _, c := range []string{"/root/miniconda/bin/bsdtar", "/usr/bin/bsdtar"} {
		if _, err := os.Stat(c); err != nil {
			continue
		}
		out, err := exec.Command(c, "--options", "iso9660:!joliet,iso9660:!rockridge", "-tf", filepath.Join(repo, "internal", "testutil", "testdata", "testimg.iso")).Output()
		if err != nil {
			r.Note("bsdtar failed on the anchor image: " + err.Error())
			return
		}
		var theirs []string
		for _, l := range strings.Split(strings.TrimSpace(string(out)), "\n") {
			l = strings.TrimSuffix(strings.TrimSpace(l), "/")
			if l == "" || l == "." {
				continue
			}
			theirs = append(theirs, strings.ToLower(strings.TrimSuffix(l, ".")))
		}
		sort.Strings(theirs)
		if strings.Join(mine, "|") != strings.Join(theirs, "|") {
			r.Note(sprintf("anchor listing differs from bsdtar: mine=%v bsdtar=%v", mine, theirs))
		} else {
			r.Extra("anchor_bsdtar_agrees", true)
		}
		return
	}
	r.Note("bsdtar not present: reference reader anchored on the third-party image only")
}

// anchorGeneratedImages: libarchive (bsdtar) must read generated images the way the reference reader does:
// same set of portable-name paths, same bytes for every file. Guards against a reader bug mirroring a generator bug.
func anchorGeneratedImages(r *Reporter, scratch string) {
	bt := ""
	for _, c := range []string{"/root/miniconda/bin/bsdtar", "/usr/bin/bsdtar"} {
		if _, err := os.Stat(c); err == nil {
			bt = c
			break
		}
	}
	if bt == "" {
		r.Note("bsdtar not present: generated images not cross-read by a third-party reader")
		return
	}
	root := filepath.Join(scratch, "anchor-root")
	trees := []Tree{
		{Nodes: []TreeNode{{Parent: -1, Size: 2049, Name: "a"}, {Parent: -1, Size: 1, Name: "B.TXT"}}},
		{Nodes: []TreeNode{{Parent: -1, Dir: true, Name: "a"}, {Parent: 0, Size: 2048, Name: "a"}, {Parent: 0, Dir: true, Name: "e5"}, {Parent: 2, Size: 70000, Name: "B.TXT"}, {Parent: -1, Size: 0, Name: "B.TXT"}}},
		{Nodes: []TreeNode{{Parent: -1, Dir: true, Name: "e5"}, {Parent: 0, Size: 1, Name: "a"}, {Parent: 0, Size: 2047, Name: "B.TXT"}, {Parent: 0, Size: 4097, Name: "e5"}}},
	}
	// a directory large enough to need several sectors of records
	big := Tree{}
	for i := 0; i < 130; i++ {
		big.Nodes = append(big.Nodes, TreeNode{Parent: -1, Size: int64(i * 37 % 5000), Name: sprintf("file-%03d.bin", i)})
	}
	trees = append(trees, big)
	agree := 0
	for ti, tr := range trees {
		os.RemoveAll(root)
		dir := filepath.Join(root, "T")
		must(os.MkdirAll(dir, 0o755))
		tr.Materialize(dir)
		v, err := openVISO(root, "/T", false)
		if err != nil {
			continue
		}
		st, _ := v.Stat()
		img, err := canonicalImage(v, 1<<20, st.Size()+1<<20)
		v.Close()
		if err != nil {
			continue
		}
		ip := filepath.Join(scratch, "anchor.iso")
		must(os.WriteFile(ip, img, 0o644))
		out, err := exec.Command(bt, "-tf", ip).Output()
		if err != nil {
			r.Violation("C07:third-party-reader-rejects-image", sprintf("bsdtar cannot list the generated image of tree %d [%s]: %v", ti, tr.String(), err), map[string]any{"tree": tr.Nodes})
			continue
		}
		var theirs []string
		for _, l := range strings.Split(strings.TrimSpace(string(out)), "\n") {
			l = strings.TrimSuffix(strings.TrimSpace(l), "/")
			if l != "" && l != "." {
				theirs = append(theirs, l)
			}
		}
		sort.Strings(theirs)
		var mine []string
		for i := range tr.Nodes {
			mine = append(mine, tr.Path(i))
		}
		sort.Strings(mine)
		if strings.Join(mine, "|") != strings.Join(theirs, "|") {
			r.Violation("C07:third-party-reader-lists-differently", sprintf("tree %d [%s]: bsdtar lists %v, source tree has %v", ti, tr.String(), theirs, mine), map[string]any{"tree": tr.Nodes})
			continue
		}
		ok := true
		for i, n := range tr.Nodes {
			if n.Dir {
				continue
			}
			got, err := exec.Command(bt, "-xOf", ip, tr.Path(i)).Output()
			want, _ := os.ReadFile(filepath.Join(dir, tr.Path(i)))
			if err != nil || !bytes.Equal(got, want) {
				ok = false
				r.Violation("C07:third-party-reader-extracts-differently", sprintf("tree %d: bsdtar extracts %s with %d bytes (err %v), source has %d: %s", ti, tr.Path(i), len(got), err, len(want), describeDiff(got, want)), map[string]any{"tree": tr.Nodes})
				break
			}
		}
		if ok {
			agree++
		}
	}
	r.Extra("bsdtar_agrees_on_generated_images", agree)
	os.RemoveAll(root)
	os.Remove(filepath.Join(scratch, "anchor.iso"))
}
