package verifh

import (
	"os"
	"path/filepath"
	"strings"
	"testing"
	"testing/synctest"
	"time"
)

// C06: listing, stat and dir-size report the true tree.

var c06Kinds = []string{"file", "dir", "symfile", "symdir", "dangling", "selfloop", "thrufile"}

func c06HasLateKind(ki, k int) bool {
	for i := 0; i < k; i++ {
		if ki%len(c06Kinds) >= 5 {
			return true
		}
		ki /= len(c06Kinds)
	}
	return false
}

func c06MakeEntry(dir, name, kind string, w *World) {
	p := filepath.Join(dir, name)
	switch kind {
	case "file":
		mkFileAbs(p, int64(5+len(name)%7), 4, baseTime.Add(time1(len(name))))
	case "dir":
		must(os.Mkdir(p, 0o755))
		mkFileAbs(filepath.Join(p, "inner"), 3, 1, baseTime)
	case "symfile":
		must(os.Symlink(filepath.Join(w.Root, "targets", "tfile"), p))
	case "symdir":
		must(os.Symlink(filepath.Join(w.Root, "targets", "tdir"), p))
	case "dangling":
		must(os.Symlink(filepath.Join(w.Root, "targets", "nothing"), p))
	case "selfloop": // resolving fails with ELOOP, not ENOENT
		must(os.Symlink(p, p))
	case "thrufile": // resolving fails with ENOTDIR
		must(os.Symlink(filepath.Join(w.Root, "targets", "tfile", "x"), p))
	}
}

func TestC06(t *testing.T) {
	r := NewReporter(t)
	defer r.Done()
	r.Rule("directories with 0..3 entries of every kind combination (file, dir, symlink->file, symlink->dir, dangling, self-referencing link, link through a regular file) and name sets (ASCII, space, non-ASCII, 255 bytes, not valid UTF-8) x every interleaving of {ReadDir, ReadDirEntry, ReadDirEntryV2} of length <= entries+2 after OpenDir; sizes and modification times beyond 32 bits; directories named like disc images (with key files) and like protocol keywords; all histories of <= 3 (thorough 4) requests over {three listing commands, open / CLOSEFILE / failed open of a file, read, stat, dir-size, failed open-dir} between OpenDir and two more listing commands; entry-count families (1..40 / 1..300 contiguous, then powers of two +-1 up to 4097); listings after another client abandoned its own (write failure or reset after k bytes of a 1500-entry bulk answer, disconnect between entries); Stat and GetDirSize on every path of every tree with <= 3 nodes; 11 kinds of change to the tree between two probes of stat / dir-size / listings (in-place growth and shrinking, replacement, additions and removals two levels down, kind swaps, renames) x {times as they fall, all times restored} x {same connection, first asked by another client}; distinct by (directory shape, command sequence)")
	w := newWorld(t, "srv/root")
	defer w.Cleanup()
	mkFileAbs(filepath.Join(w.Root, "targets", "tfile"), 1234, 7, baseTime.Add(time1(40)))
	must(os.MkdirAll(filepath.Join(w.Root, "targets", "tdir"), 0o755))
	mkFileAbs(filepath.Join(w.Root, "targets", "tdir", "x"), 10, 7, baseTime)

	nameSets := [][]string{{"a", "B.TXT", "c d"}, {"é", strings.Repeat("n", 255), "ж.iso"}, {"\xc8\xe3\xf0\xe0.iso", "a\xff\xfeb", "\xfe\xfe"}}
	lops := []uint16{opReadDir, opReadDirEntry, opReadDirEntryV2}
	caseIdx := 0
	gate := newReplayGate(r, "C06", w.Root, w.Dir, false, 17, 2)
	defer gate.Stop()
	run := func(desc string, reqs []Req) {
		m := newModel(w.Root, false)
		res := runSession(t, SrvOpts{Root: w.Root}, m, reqs, Delivery{})
		gate.maybe(newModel(w.Root, false), reqs, res, desc, nil)
		r.Transition(int64(len(res.Steps)))
		r.Eval(1)
		key := desc + "|" + strings.Join(reqStrings(reqs), ",")
		r.State(key)
		r.Nontrivial(key)
		for _, st := range res.Steps {
			r.Outcome(st.Class)
		}
		if caseIdx%4001 == 0 {
			r.Sample(map[string]any{"dir": desc, "steps": res.Steps})
		}
		if res.Why != "" {
			r.Violation("C06:"+res.WhySig, desc+": "+res.Why, map[string]any{"dir": desc, "requests": reqs, "steps": res.Steps})
		}
	}

	// (a) shapes x interleavings
	for k := 0; k <= 3; k++ {
		nk := 1
		for i := 0; i < k; i++ {
			nk *= len(c06Kinds)
		}
		for ki := 0; ki < nk; ki++ {
			for nsi, names := range nameSets {
				if k == 0 && nsi > 0 {
					continue
				}
				if k == 3 && !r.Thorough() && c06HasLateKind(ki, k) && nsi > 0 {
					continue // quick: the two unresolvable-link kinds in 3-entry directories only with ASCII names
				}
				caseIdx++
				if !r.Mine(caseIdx) {
					continue
				}
				dir := filepath.Join(w.Root, "L")
				os.RemoveAll(dir)
				must(os.Mkdir(dir, 0o755))
				var kinds []string
				x := ki
				for i := 0; i < k; i++ {
					kinds = append(kinds, c06Kinds[x%len(c06Kinds)])
					c06MakeEntry(dir, names[i], c06Kinds[x%len(c06Kinds)], w)
					x /= len(c06Kinds)
				}
				desc := sprintf("kinds=%v names=%d", kinds, nsi)
				maxLen := k + 2
				if nsi > 0 || r.Tier == "quick" && k == 3 {
					maxLen = k + 1
				}
				for L := 1; L <= maxLen; L++ {
					nseq := 1
					for i := 0; i < L; i++ {
						nseq *= 3
					}
					for si := 0; si < nseq; si++ {
						reqs := []Req{mkReq(opOpenDir, "/L")}
						y := si
						for i := 0; i < L; i++ {
							reqs = append(reqs, noargReq(lops[y%3]))
							y /= 3
						}
						run(desc, reqs)
					}
				}
				// dir-size of a directory with symlinks (followed by design; dangling ones contribute nothing)
				run(desc, []Req{mkReq(opGetDirSize, "/L"), mkReq(opStatFile, "/L"), mkReq(opGetDirSize, "/")})
				// re-open in the middle of an enumeration restarts it
				run(desc, []Req{mkReq(opOpenDir, "/L"), noargReq(opReadDirEntry), mkReq(opOpenDir, "/L"), noargReq(opReadDir), noargReq(opReadDirEntry)})
			}
		}
		if r.TimeUp() {
			break
		}
	}

	// (b) entry-count families
	maxN := 40
	if r.Thorough() {
		maxN = 4096
	}
	// beyond the contiguous range: powers of two and their neighbours (chunked directory reads, 8/16-bit counters)
	edge := map[int]bool{}
	for _, p2 := range []int{64, 100, 128, 255, 256, 512, 1000, 1024, 2048, 3072, 4096} {
		for d := -1; d <= 1; d++ {
			edge[p2+d] = true
		}
	}
	if maxN < 4097 {
		maxN = 4097
	}
	contiguous := 40
	if r.Thorough() {
		contiguous = 300
	}
	for n := 1; n <= maxN; n++ {
		if n > contiguous && !edge[n] && (!r.Thorough() || n%251 != 0) {
			continue
		}
		caseIdx++
		if !r.Mine(caseIdx) {
			continue
		}
		dir := filepath.Join(w.Root, "L")
		os.RemoveAll(dir)
		must(os.Mkdir(dir, 0o755))
		for i := 0; i < n; i++ {
			if i%7 == 3 {
				must(os.Mkdir(filepath.Join(dir, sprintf("d%04d", i)), 0o755))
			} else {
				mkFileAbs(filepath.Join(dir, sprintf("f%04d.bin", i)), int64(i%50), 3, baseTime.Add(time1(i%100)))
			}
		}
		desc := sprintf("family entries=%d", n)
		run(desc, []Req{mkReq(opOpenDir, "/L"), noargReq(opReadDir), noargReq(opReadDirEntry)})
		if n > 1025 && !r.Thorough() {
			continue // entry-by-entry enumeration of the largest directories only in the thorough tier
		}
		for _, op := range []uint16{opReadDirEntry, opReadDirEntryV2} {
			reqs := []Req{mkReq(opOpenDir, "/L")}
			for i := 0; i <= n+1; i++ {
				reqs = append(reqs, noargReq(op))
			}
			run(desc, reqs)
		}
	}
	os.RemoveAll(filepath.Join(w.Root, "L"))

	// (a') an enumeration interleaved with everything else a connection can do (open / close / read a file, stat,
	// dir-size, failed opens): the open directory and its position belong to the listing commands alone
	{
		dir := filepath.Join(w.Root, "L")
		os.RemoveAll(dir)
		must(os.Mkdir(dir, 0o755))
		mkFileAbs(filepath.Join(dir, "a.bin"), 100, 1, baseTime)
		mkFileAbs(filepath.Join(dir, "b.bin"), 2000, 2, baseTime.Add(time1(3)))
		must(os.Mkdir(filepath.Join(dir, "c"), 0o755))
		alpha := []Req{noargReq(opReadDirEntry), noargReq(opReadDirEntryV2), noargReq(opReadDir), mkReq(opOpenFile, "/L/b.bin"), mkReq(opOpenFile, "/CLOSEFILE"), mkReq(opOpenFile, "/nope"),
			rdReq(5, 50), mkReq(opStatFile, "/L/a.bin"), mkReq(opGetDirSize, "/L"), mkReq(opOpenDir, "/nope")}
		depth := 3
		if r.Thorough() {
			depth = 4
		}
		var rec func(h []Req)
		rec = func(h []Req) {
			if len(h) > 0 {
				caseIdx++
				if r.Mine(caseIdx) {
					run("enumeration interleaved with other requests", append(append([]Req{mkReq(opOpenDir, "/L")}, h...), noargReq(opReadDirEntry), noargReq(opReadDir)))
				}
			}
			if len(h) == depth {
				return
			}
			for _, a := range alpha {
				rec(append(append([]Req{}, h...), a))
			}
		}
		rec(nil)
	}

	// (b'') a listing that another client abandoned half-way (its connection fails after k bytes of the bulk answer, or
	// it disconnects between two entries): the next client's listings are those of its own directories, complete
	for ki, k := range []int64{0, 3, 8, 9, 100, 2000, 40000} {
		caseIdx++
		if !r.Mine(caseIdx) {
			continue
		}
		dir := filepath.Join(w.Root, "L")
		os.RemoveAll(dir)
		must(os.Mkdir(dir, 0o755))
		for i := 0; i < 1500; i++ {
			mkFileAbs(filepath.Join(dir, sprintf("entry-with-a-long-name-%05d.bin", i)), int64(i%9), 3, baseTime.Add(time1(i%50)))
		}
		small := filepath.Join(w.Root, "S")
		os.RemoveAll(small)
		mkFileAbs(filepath.Join(small, "one.bin"), 11, 1, baseTime)
		mkFileAbs(filepath.Join(small, "two.bin"), 22, 1, baseTime)
		must(os.Mkdir(filepath.Join(small, "three"), 0o755))
		for vi, variant := range []string{"bulk-write-fails", "bulk-reset", "entry-by-entry-left"} {
			prelude := func(s *Sess) {
				a := s.Dial(nil)
				a.Send(mkReq(opOpenDir, "/L").Encode())
				synctest.Wait()
				a.Take()
				switch variant {
				case "bulk-write-fails":
					a.mu.Lock()
					a.outFailAt = a.outTotal + k
					a.mu.Unlock()
					a.Send(noargReq(opReadDir).Encode())
				case "bulk-reset":
					a.outCap = int(k) + 1
					a.Send(noargReq(opReadDir).Encode())
					synctest.Wait()
					a.Rst()
				default:
					for i := int64(0); i <= k%7; i++ {
						a.Send(noargReq(opReadDirEntry).Encode())
					}
					synctest.Wait()
					a.Fin()
				}
				synctest.Wait()
			}
			reqs := []Req{mkReq(opOpenDir, "/S"), noargReq(opReadDir), mkReq(opOpenDir, "/L"), noargReq(opReadDir), mkReq(opOpenDir, "/S"), noargReq(opReadDirEntry), noargReq(opReadDirEntryV2), noargReq(opReadDirEntry), noargReq(opReadDirEntry)}
			desc := sprintf("after a listing abandoned by another client (%s, k=%d)", variant, k)
			m := newModel(w.Root, false)
			res := runSession(t, SrvOpts{Root: w.Root}, m, reqs, Delivery{Prelude: prelude})
			r.Transition(int64(len(res.Steps)))
			r.Eval(1)
			r.State(desc)
			r.Nontrivial(desc)
			for _, st := range res.Steps {
				r.Outcome("abandoned:" + st.Class)
			}
			if res.Why != "" {
				r.Violation("C06:abandoned-listing:"+res.WhySig, desc+": "+res.Why, map[string]any{"variant": variant, "k": k, "requests": reqs})
			}
			_, _ = vi, ki
		}
		os.RemoveAll(small)
	}

	// (b') magnitudes: sizes at and beyond 32 bits (sparse files), their sum in dir-size, and modification times beyond
	// 2^31 and 2^32 seconds - every size and time field of the protocol is 64 bits wide
	caseIdx++
	if r.Mine(caseIdx) {
		dir := filepath.Join(w.Root, "L")
		os.RemoveAll(dir)
		must(os.Mkdir(dir, 0o755))
		for i, sz := range []int64{1<<31 - 1, 1 << 31, 1<<32 - 1, 1 << 32, 1<<32 + 1, 1<<33 + 5, 1 << 40} {
			p := filepath.Join(dir, sprintf("big%d.bin", i))
			f, err := os.Create(p)
			must(err)
			must(f.Truncate(sz))
			must(f.Close())
			must(os.Chtimes(p, baseTime, baseTime))
		}
		for i, ts := range []int64{1<<31 - 1, 1 << 31, 1<<32 - 1, 1 << 32, 1<<32 + 86400, 1 << 33} {
			p := filepath.Join(dir, sprintf("time%d.bin", i))
			mkFileAbs(p, int64(10+i), 3, time.Unix(ts, 0))
		}
		must(os.Mkdir(filepath.Join(dir, "late"), 0o755))
		must(os.Chtimes(filepath.Join(dir, "late"), time.Unix(1<<32+5, 0), time.Unix(1<<32+5, 0)))
		var reqs []Req
		reqs = append(reqs, mkReq(opOpenDir, "/L"), noargReq(opReadDir), mkReq(opGetDirSize, "/L"), mkReq(opGetDirSize, "/"), mkReq(opOpenDir, "/L"))
		for i := 0; i < 16; i++ {
			reqs = append(reqs, noargReq(opReadDirEntry))
		}
		reqs = append(reqs, mkReq(opOpenDir, "/L"))
		for i := 0; i < 16; i++ {
			reqs = append(reqs, noargReq(opReadDirEntryV2))
		}
		for _, n := range []string{"big0.bin", "big3.bin", "big5.bin", "big6.bin", "time1.bin", "time3.bin", "time5.bin", "late"} {
			reqs = append(reqs, mkReq(opStatFile, "/L/"+n), mkReq(opOpenFile, "/L/"+n))
		}
		run("sizes and times beyond 32 bits", reqs)
		os.RemoveAll(dir)
	}
	// (b'') directories whose names and neighbours make them look like disc images: `<name>.iso` directories below
	// PS3ISO with a key file beside them or in REDKEY, a directory called CLOSEFILE, directories carrying the
	// virtual prefixes' names - they are directories and list like any other
	caseIdx++
	if r.Mine(caseIdx) {
		hexKey := strings.Repeat("0123456789abcdef", 2)
		for _, top := range []string{"PS3ISO", "ps3iso", "x/PS3ISO"} {
			base := filepath.Join(w.Root, top)
			mkFileAbs(filepath.Join(base, "game.iso", "a.bin"), 1500, 3, baseTime)
			mkFileAbs(filepath.Join(base, "game.iso", "sub", "b.bin"), 50, 4, baseTime)
			writeFileAbs(filepath.Join(base, "game.dkey"), []byte(hexKey), baseTime)
			mkFileAbs(filepath.Join(base, "alt.ISO", "c.bin"), 300, 5, baseTime)
			writeFileAbs(filepath.Join(filepath.Dir(base), "REDKEY", "alt.dkey"), []byte(hexKey), baseTime)
			mkFileAbs(filepath.Join(base, "plain.iso", "d.bin"), 32, 6, baseTime)
			var reqs []Req
			for _, d := range []string{"/" + top + "/game.iso", "/" + top + "/alt.ISO", "/" + top + "/plain.iso", "/" + top} {
				reqs = append(reqs, mkReq(opStatFile, d), mkReq(opOpenDir, d), noargReq(opReadDir), mkReq(opOpenDir, d), noargReq(opReadDirEntry), noargReq(opReadDirEntryV2), noargReq(opReadDirEntry), noargReq(opReadDirEntry), mkReq(opGetDirSize, d))
			}
			reqs = append(reqs, mkReq(opGetDirSize, "/"), mkReq(opStatFile, "/"+top+"/game.iso/a.bin"), mkReq(opOpenDir, "/"+top+"/game.iso/sub"), noargReq(opReadDir))
			run("directories named like disc images below "+top, reqs)
			os.RemoveAll(filepath.Join(w.Root, strings.Split(top, "/")[0]))
			os.RemoveAll(filepath.Join(filepath.Dir(base), "REDKEY"))
		}
		for _, name := range []string{"CLOSEFILE", "***DVD***", "***PS3***", "REDKEY"} {
			mkFileAbs(filepath.Join(w.Root, name, "f.bin"), 77, 7, baseTime)
		}
		run("directories named like protocol keywords", []Req{mkReq(opOpenDir, "/CLOSEFILE"), noargReq(opReadDir), mkReq(opGetDirSize, "/CLOSEFILE"), mkReq(opStatFile, "/CLOSEFILE"), mkReq(opStatFile, "/CLOSEFILE/f.bin"),
			mkReq(opOpenDir, "/REDKEY"), noargReq(opReadDirEntry), mkReq(opGetDirSize, "/REDKEY"), mkReq(opOpenDir, "/"), noargReq(opReadDir), mkReq(opGetDirSize, "/")})
		for _, name := range []string{"CLOSEFILE", "***DVD***", "***PS3***", "REDKEY"} {
			os.RemoveAll(filepath.Join(w.Root, name))
		}
	}
	// (f) the tree changes between requests (another program writes below the root, or modification times are
	// restored afterwards as copy tools do): every answer describes the tree as it is when the request is made -
	// on the connection that asked before, and on a connection that comes after another client asked
	{
		base := filepath.Join(w.Root, "M")
		probe := func() []Req {
			var reqs []Req
			for _, p := range []string{"/M/a.bin", "/M/s1/b.bin", "/M/s1/z.bin", "/M/s1/s2/c.bin", "/M/s1/s2/d.bin", "/M/s1", "/M/s9", "/M/e", "/M/a.bin/inner.bin"} {
				reqs = append(reqs, mkReq(opStatFile, p))
			}
			for _, p := range []string{"/M", "/M/s1", "/M/s1/s2", "/M/e", "/M/s9", "/"} {
				reqs = append(reqs, mkReq(opGetDirSize, p))
			}
			for _, p := range []string{"/M", "/M/s1", "/M/s1/s2"} {
				reqs = append(reqs, mkReq(opOpenDir, p), noargReq(opReadDir), mkReq(opOpenDir, p), noargReq(opReadDirEntry), noargReq(opReadDirEntryV2), noargReq(opReadDirEntry), noargReq(opReadDirEntry))
			}
			return reqs
		}
		for _, ch := range treeChanges() {
			for _, restore := range []bool{false, true} {
				for _, other := range []bool{false, true} {
					caseIdx++
					if !r.Mine(caseIdx) {
						continue
					}
					ch, restore := ch, restore
					changeBaseTree(base)
					apply := func() {
						ch.do(base)
						if restore {
							setAllTimes(base, baseTime)
						}
					}
					desc := sprintf("tree changes between requests: %s (times restored=%v, first asked by another client=%v)", ch.name, restore, other)
					first := probe()
					var reqs []Req
					d := Delivery{}
					if other {
						d.Prelude = func(s *Sess) {
							c := s.Dial(nil)
							for _, rq := range first {
								s.Exchange(c, rq.Encode())
							}
							c.Fin()
							synctest.Wait()
							apply()
						}
						reqs = probe()
					} else {
						reqs = append(first, probe()...)
						d.Before = map[int]func(){len(first): apply}
					}
					m := newModel(w.Root, false)
					res := runSession(t, SrvOpts{Root: w.Root}, m, reqs, d)
					r.Transition(int64(len(res.Steps)))
					r.Eval(1)
					r.State(desc)
					r.Nontrivial(desc)
					for _, st := range res.Steps {
						r.Outcome(st.Class)
					}
					if res.Why != "" {
						r.Violation("C06:changed-tree:"+res.WhySig, desc+": "+res.Why, map[string]any{"dir": desc, "requests": reqs, "steps": res.Steps})
					}
				}
			}
		}
		os.RemoveAll(base)
	}
	// (c) stat and dir-size on every path of every small tree
	maxNodes := 3
	if r.Thorough() {
		maxNodes = 4
	}
	for n := 0; n <= maxNodes; n++ {
		enumTrees(n, []int64{0, 1, 2049}, func(tr Tree) {
			caseIdx++
			if !r.Mine(caseIdx) {
				return
			}
			dir := filepath.Join(w.Root, "T")
			os.RemoveAll(dir)
			must(os.Mkdir(dir, 0o755))
			tr.Materialize(dir)
			paths := []string{"/T", "/T/", "/T/nope", "/"}
			for i := range tr.Nodes {
				paths = append(paths, "/T/"+tr.Path(i))
			}
			var reqs []Req
			for _, p := range paths {
				reqs = append(reqs, mkReq(opStatFile, p), mkReq(opGetDirSize, p), mkReq(opOpenDir, p))
			}
			run("tree "+tr.String(), reqs)
		})
	}
	os.RemoveAll(filepath.Join(w.Root, "T"))
}
