package verifh

import (
	"io"
	"net"
	"os"
	"path/filepath"
	"strings"
	"time"
)

// Conformance: sessions explored in-process (vnet, harness wiring, go1.26) are replayed against the REAL binary
// (default toolchain, cmd/ wiring, real TCP, real directory) and judged by the same reference model.

type binReplayer struct {
	b     *BinSrv
	allow bool
	root  string
	n     int
}

func startReplayer(rootArg, cwd, logDir string, allow bool, extra ...string) (*binReplayer, error) {
	args := []string{"server", "--listen-addr=127.0.0.1:0", "--read-timeout=2m"}
	args = append(args, extra...)
	if strings.HasPrefix(rootArg, "positional:") {
		// `ps3netsrv-go <directory> [flags]`: the drag-and-drop form, the directory is the root
		args = append([]string{strings.TrimPrefix(rootArg, "positional:")}, args[1:]...)
	} else if rootArg != "" {
		args = append(args, "--root="+rootArg)
	}
	if allow {
		args = append(args, "--allow-write")
	}
	must(os.MkdirAll(logDir, 0o755))
	b, err := startBin(args, cleanEnv(logDir), cwd, filepath.Join(logDir, sprintf("replay-%v.log", allow)), 30*time.Second)
	if err != nil {
		if b != nil {
			b.Stop()
		}
		return nil, err
	}
	return &binReplayer{b: b, allow: allow}, nil
}

func (br *binReplayer) Stop() {
	if br != nil && br.b != nil {
		br.b.Stop()
	}
}

// replay runs reqs over one real TCP connection. lens/closed are the per-step response lengths and connection
// states observed in-process; every response is judged by m. Returns a violation text or "".
func (br *binReplayer) replay(m *Model, reqs []Req, lens []int, closed []bool) (why string, sig string) {
	c, err := net.DialTimeout("tcp", br.b.Addr, 20*time.Second)
	if err != nil {
		return "real binary refused the connection: " + err.Error(), "bin:connect"
	}
	defer c.Close()
	br.n++
	for i, rq := range reqs {
		tick()
		if i >= len(lens) {
			break
		}
		m.Pre(rq)
		if _, err := c.Write(rq.Encode()); err != nil {
			return sprintf("step %d %s: write to the real binary failed: %v", i, rq, err), "bin:write"
		}
		if rq.Raw != nil {
			c.(*net.TCPConn).CloseWrite()
		}
		buf := make([]byte, lens[i])
		c.SetReadDeadline(time.Now().Add(30 * time.Second))
		n, rerr := io.ReadFull(c, buf)
		resp := buf[:n]
		isClosed := false
		if rerr != nil {
			if rerr == io.EOF || rerr == io.ErrUnexpectedEOF {
				isClosed = true
			} else {
				return sprintf("step %d %s: real binary delivered %d of the %d response bytes the in-process run produced, then %v", i, rq, n, lens[i], rerr), "bin:short-response"
			}
		}
		if closed[i] && !isClosed {
			// in-process the connection ended here: the binary must end it too (EOF, nothing more)
			c.SetReadDeadline(time.Now().Add(30 * time.Second))
			extra, err := io.ReadAll(c)
			if err != nil {
				return sprintf("step %d %s: in-process the server closed the connection, the real binary keeps it open (%v)", i, rq, err), "bin:not-closed"
			}
			resp = append(resp, extra...)
			isClosed = true
		}
		w, class := m.Check(rq, resp, isClosed)
		if w != "" {
			return sprintf("step %d %s (real binary): %s", i, rq, w), "bin:" + class
		}
		if isClosed != closed[i] {
			return sprintf("step %d %s: real binary closed=%v, in-process closed=%v", i, rq, isClosed, closed[i]), "bin:close-mismatch"
		}
		if isClosed {
			return "", ""
		}
	}
	// orderly end: nothing may follow
	c.(*net.TCPConn).CloseWrite()
	c.SetReadDeadline(time.Now().Add(30 * time.Second))
	extra, err := io.ReadAll(c)
	if err != nil {
		return "real binary did not close the connection after the client's FIN: " + err.Error(), "bin:not-closed-after-fin"
	}
	if len(extra) != 0 {
		return sprintf("real binary sent %d stray bytes at the end of the session: %s", len(extra), hexHead(extra)), "bin:stray"
	}
	return "", ""
}

func lensOf(raw [][]byte) []int {
	out := make([]int, len(raw))
	for i, r := range raw {
		out[i] = len(r)
	}
	return out
}

// replayGate decides deterministically (by run counter and seed) whether a session is replayed on the binary.
type replayGate struct {
	r     *Reporter
	br    *binReplayer
	slice int
	n     int
	prop  string
	tag   string
}

func newReplayGate(r *Reporter, prop, root, cwd string, allow bool, quickSlice, thoroughSlice int) *replayGate {
	return newReplayGateArgs(r, prop, "", root, cwd, allow, quickSlice, thoroughSlice)
}

// newReplayGateArgs: a second real server with extra command-line flags (tag keeps its log directory apart).
func newReplayGateArgs(r *Reporter, prop, tag, root, cwd string, allow bool, quickSlice, thoroughSlice int, extra ...string) *replayGate {
	g := &replayGate{r: r, prop: prop, tag: tag, slice: quickSlice}
	if r.Thorough() {
		g.slice = thoroughSlice
	}
	if binPath() == "" {
		return g
	}
	br, err := startReplayer(root, cwd, binLogDir(prop+tag), allow, extra...)
	if err != nil {
		r.HarnessError("cannot start the real binary for conformance replay: " + err.Error())
		return g
	}
	g.br = br
	return g
}

func (g *replayGate) Stop() {
	if g.br != nil {
		g.br.Stop()
	}
	os.RemoveAll(binLogDir(g.prop + g.tag))
}

// binLogDir: the binary's log and HOME live outside every world so that tree snapshots do not see them.
func binLogDir(prop string) string {
	return filepath.Join(scratchBase(), sprintf("verifh-binlog-%d-%s", os.Getpid(), prop))
}

func (g *replayGate) maybe(m *Model, reqs []Req, res *SessResult, desc string, before func()) {
	g.n++
	if g.br == nil || res.Why != "" || (g.n+int(g.r.Seed))%g.slice != 0 {
		return
	}
	if before != nil {
		before()
	}
	why, sig := g.br.replay(m, reqs, lensOf(res.Raw), res.Closed)
	g.r.Trace(1)
	if why != "" {
		g.r.Violation(g.prop+":"+sig, desc+": conformance replay on the real binary: "+why, map[string]any{"requests": reqs, "case": desc})
	}
}
