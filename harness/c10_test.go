package verifh

import (
	"bytes"
	"encoding/hex"
	"io"
	"os"
	"os/exec"
	"path/filepath"
	"syscall"
	"testing"

	"github.com/spf13/afero"

	pfs "github.com/xakep666/ps3netsrv-go/pkg/fs"
)

// C10: on-the-fly decryption equals the reference plaintext for any access pattern.

const c10Sectors = 12

var c10Keys = [][]byte{
	make([]byte, 16),
	{0xff, 0xff, 0xff, 0xff, 0xff, 0xff, 0xff, 0xff, 0xff, 0xff, 0xff, 0xff, 0xff, 0xff, 0xff, 0xff},
	{0x01, 0x23, 0x45, 0x67, 0x89, 0xab, 0xcd, 0xef, 0xfe, 0xdc, 0xba, 0x98, 0x76, 0x54, 0x32, 0x10},
	{0x9a, 0x3c, 0x11, 0x07, 0xd2, 0x5e, 0x80, 0x4b, 0x66, 0xf1, 0x2d, 0xa9, 0x38, 0xc4, 0x7f, 0x05},
}

// classifyTable: "valid" (must be accepted), "invalid" (must be rejected), "borderline" (either).
func classifyTable(count uint32, pairs []uint32) string {
	if count < 2 || count > 255 || int(count)*2 != len(pairs) {
		return "invalid"
	}
	if pairs[0] != 0 {
		return "invalid"
	}
	cls := "valid"
	for i := 0; i < len(pairs); i += 2 {
		s, e := pairs[i], pairs[i+1]
		if e < s {
			return "invalid"
		}
		if e == s {
			cls = "borderline"
		}
		if i > 0 {
			pe := pairs[i-1]
			if s < pe {
				return "invalid"
			}
			if s == pe {
				cls = "borderline"
			}
		}
	}
	return cls
}

type c10Table struct {
	pairs []uint32
	count uint32 // announced count (normally len(pairs)/2)
	desc  string
}

func c10Tables(thorough bool) []c10Table {
	var out []c10Table
	max2, max3 := uint32(14), uint32(7)
	if thorough {
		max3 = 14
	}
	// 2 regions: all (e0,s1,e1) in [0,max2]^3  (monotone and not)
	for e0 := uint32(0); e0 <= max2; e0++ {
		for s1 := uint32(0); s1 <= max2; s1++ {
			for e1 := uint32(0); e1 <= max2; e1++ {
				if !thorough && (s1+2 < e0 || e1+2 < s1) {
					continue // far-from-monotone tables only in thorough
				}
				out = append(out, c10Table{pairs: []uint32{0, e0, s1, e1}, count: 2})
			}
		}
	}
	// 3 regions: monotone non-decreasing borders
	for e0 := uint32(0); e0 <= max3; e0++ {
		for s1 := e0; s1 <= max3; s1++ {
			for e1 := s1; e1 <= max3; e1++ {
				for s2 := e1; s2 <= max3+2; s2++ {
					for e2 := s2; e2 <= max3+3; e2++ {
						out = append(out, c10Table{pairs: []uint32{0, e0, s1, e1, s2, e2}, count: 3})
					}
				}
			}
		}
	}
	// first start != 0, count mismatches
	out = append(out, c10Table{pairs: []uint32{1, 2, 4, 6}, count: 2}, c10Table{pairs: []uint32{0, 2}, count: 1}, c10Table{pairs: nil, count: 0})
	// borders far beyond the end of the file, where sector * 2048 no longer fits 32 bits: the encrypted region then
	// covers the rest of the file
	for _, huge := range []uint32{1<<21 - 1, 1 << 21, 1<<21 + 8, 1 << 22, 1 << 31, 0xFFFFFFF0} {
		for _, e0 := range []uint32{0, 1, 5} {
			out = append(out, c10Table{pairs: []uint32{0, e0, huge, huge + 4}, count: 2})
		}
		out = append(out, c10Table{pairs: []uint32{0, 1, 4, 6, huge, huge + 1}, count: 3})
	}
	// 255 regions (fills sector 0 exactly)
	var big []uint32
	for i := uint32(0); i < 255; i++ {
		big = append(big, 4*i, 4*i+1)
	}
	out = append(out, c10Table{pairs: big, count: 255})
	for i := range out {
		out[i].desc = sprintf("count=%d pairs=%v", out[i].count, trimPairs(out[i].pairs))
	}
	return out
}

func trimPairs(p []uint32) []uint32 {
	if len(p) > 8 {
		return p[:8]
	}
	return p
}

func c10Image(tb c10Table, key []byte, seed byte) (disk []byte) {
	plain := patBytes(seed, 0, c10Sectors*2048)
	hdr := regionTable(tb.pairs)
	hdr[0], hdr[1], hdr[2], hdr[3] = byte(tb.count>>24), byte(tb.count>>16), byte(tb.count>>8), byte(tb.count)
	copy(plain, hdr)
	return buildEncImage(plain, tb.pairs, key)
}

func c10Offsets(tb c10Table, all bool) []int64 {
	secs := map[int64]bool{0: true, c10Sectors: true, c10Sectors - 1: true}
	if all {
		for s := int64(0); s <= c10Sectors; s++ {
			secs[s] = true
		}
	}
	for _, b := range trimPairs(tb.pairs) {
		for d := int64(-1); d <= 2; d++ {
			if s := int64(b) + d; s >= 0 && s <= c10Sectors {
				secs[s] = true
			}
		}
	}
	var offs []int64
	for s := range secs {
		for _, d := range []int64{0, -1, 1, -16, 16, 17, 1000} {
			if o := s*2048 + d; o >= 0 && o <= c10Sectors*2048+1 {
				offs = append(offs, o)
			}
		}
	}
	return uniqSorted(offs)
}

func uniqSorted(v []int64) []int64 {
	m := map[int64]bool{}
	var out []int64
	for _, x := range v {
		if !m[x] {
			m[x] = true
			out = append(out, x)
		}
	}
	for i := 1; i < len(out); i++ {
		for j := i; j > 0 && out[j] < out[j-1]; j-- {
			out[j], out[j-1] = out[j-1], out[j]
		}
	}
	return out
}

var c10Lens = []int{1, 15, 16, 17, 2047, 2048, 2049, 4096, c10Sectors * 2048}

func TestC10(t *testing.T) {
	r := NewReporter(t)
	defer r.Done()
	r.Rule("12-sector images with position-dependent content x 4 disc keys x every plain-region table with 2 regions (all border triples in [0,14]) and 3 regions (monotone borders) + count 255 + borders at 2^21-1..0xFFFFFFF0 sectors + clearly invalid tables + 3k3y images with an embedded key opened through the serving filesystem for every valid table whose first plain region ends at sector 1..3 (the watermark area then lies partly in an encrypted region) + one sparse image of 4 GiB + 128 KiB read around the 4 GiB mark x {clearRegions 0/1} x underlying Read capped at {none,1,16,2047,2048} x op sequences of depth <= 2 over Read/Seek/ReadAt at sector/region borders +-1,+-16; oracle = reference AES-CBC written on raw block calls; distinct by (table, key, clear, cap, op sequence); histories that come back to an earlier position inside an encrypted sector after an unaligned read elsewhere (1152 six-operation sequences per table for every fourth valid table)")
	dir := filepath.Join(scratchBase(), sprintf("verifh-c10-%d", os.Getpid()))
	must(os.MkdirAll(dir, 0o755))
	defer os.RemoveAll(dir)
	tables := c10Tables(r.Thorough())
	r.Extra("tables", len(tables))
	osfs := afero.NewOsFs()
	caseIdx := 0
	// hostile counts first (may kill the worker: announced to the driver)
	for _, cnt := range []uint32{256, 1 << 24, 0xFFFFFFFF, 0x80000000} {
		caseIdx++
		if !r.Mine(caseIdx) {
			continue
		}
		r.Begin(caseIdx, "C10:huge-count", sprintf("region table announcing %d regions", cnt))
		tb := c10Table{pairs: []uint32{0, 2, 5, 8}, count: cnt}
		p := filepath.Join(dir, "huge.iso")
		writeFileAbs(p, c10Image(tb, c10Keys[0], 1), baseTime)
		f, err := osfs.Open(p)
		must(err)
		func() {
			defer func() {
				if pv := recover(); pv != nil {
					r.Violation("C10:huge-count-panic", sprintf("NewEncryptedISO with count=%d panicked: %v", cnt, pv), map[string]any{"count": cnt})
				}
			}()
			v, err := pfs.NewEncryptedISO(f, c10Keys[0], false)
			r.Transition(1)
			if err == nil {
				r.Violation("C10:invalid-table-accepted", sprintf("table announcing %d regions (does not fit sector 0) was accepted", cnt), map[string]any{"count": cnt})
				_ = v
			} else {
				r.Outcome("huge-count-rejected")
			}
		}()
		f.Close()
	}
	if r.Shard == 0 {
		anchorOpenssl(r)
	}
	// an image larger than 4 GiB (sparse): offsets, sector numbers and region borders beyond 2^32 bytes
	caseIdx++
	if r.Mine(caseIdx) {
		c10HugeImage(r, dir)
	}
	caps := []int{0, 1, 16, 2047, 2048}
	for ti, tb := range tables {
		caseIdx++
		if !r.Mine(caseIdx) {
			continue
		}
		if ti%64 == 0 && r.TimeUp() {
			break
		}
		key := c10Keys[ti%len(c10Keys)]
		cls := classifyTable(tb.count, tb.pairs)
		disk := c10Image(tb, key, byte(ti))
		p := filepath.Join(dir, "img.iso")
		writeFileAbs(p, disk, baseTime)
		r.State(tb.desc)
		allOffs := tb.count == 2 || r.Thorough()
		offs := c10Offsets(tb, allOffs)
		for _, clear := range []bool{false, true} {
			var ref []byte
			if cls != "invalid" {
				ref = refDecryptImage(disk, tb.pairs, key, clear)
			}
			for _, cp := range caps {
				if cp != 0 && !r.Thorough() && (ti+cp)%5 != 0 {
					continue
				}
				open := func() (rsra, func(), error) {
					raw, err := osfs.Open(p)
					must(err)
					var f afero.File = raw
					if cp > 0 {
						v := newVFs(osfs, "cap")
						v.record = false
						v.Hook = func(e FsEvent) *FsFault {
							if e.Op == "Read" {
								return &FsFault{Short: cp}
							}
							return nil
						}
						f = v.wrap(raw, p)
					}
					view, err := pfs.NewEncryptedISO(f, key, clear)
					if err != nil {
						f.Close()
						return nil, nil, err
					}
					return view, func() { view.Close() }, nil
				}
				var view rsra
				var closeFn func()
				var err error
				func() {
					defer func() {
						if pv := recover(); pv != nil {
							err = nil
							view = nil
							r.Violation("C10:open-panic", sprintf("NewEncryptedISO panicked for table %s: %v", tb.desc, pv), map[string]any{"table": tb})
						}
					}()
					view, closeFn, err = open()
				}()
				r.Transition(1)
				if view == nil && err == nil {
					continue
				}
				rep := func(ops []ioOp) map[string]any {
					return map[string]any{"table_pairs": trimPairs(tb.pairs), "count": tb.count, "key_index": ti % len(c10Keys), "clear_regions": clear, "underlying_read_cap": cp, "ops": ops, "class": cls}
				}
				switch {
				case cls == "invalid" && err == nil:
					closeFn()
					r.Outcome("invalid-accepted")
					r.Violation("C10:invalid-table-accepted", sprintf("clearly invalid region table accepted: %s", tb.desc), rep(nil))
					continue
				case cls == "invalid":
					r.Outcome("invalid-rejected")
					continue
				case cls == "valid" && err != nil:
					r.Outcome("valid-rejected")
					r.Violation("C10:valid-table-rejected", sprintf("valid region table rejected (%v): %s", err, tb.desc), rep(nil))
					continue
				case err != nil:
					r.Outcome("borderline-rejected")
					continue
				}
				r.Outcome(cls + "-accepted")
				closeFn()
				// op sequences: each from a fresh view
				runSeq := func(ops []ioOp) {
					v, cl, err := open()
					if err != nil {
						return
					}
					defer cl()
					st := &ioState{}
					for i, op := range ops {
						why, class := applyOp(v, ref, st, op, nil)
						r.Transition(1)
						r.Outcome(class)
						if why != "" {
							r.Violation("C10:"+class+":"+op.Kind, sprintf("table %s clear=%v cap=%d ops=%v: step %d: %s", tb.desc, clear, cp, ops, i, why), rep(ops))
							return
						}
					}
					r.Eval(1)
				}
				for _, off := range offs {
					for _, n := range c10Lens {
						if cp == 1 && n > 2049 {
							continue
						}
						runSeq([]ioOp{{Kind: "readat", N: n, Off: off}})
						runSeq([]ioOp{{Kind: "seek", Off: off, Whence: io.SeekStart}, {Kind: "read", N: n}})
					}
				}
				// positional reads behind / ahead of a sequential cursor that has moved over the encrypted regions
				for _, off := range offs {
					for _, n := range []int{1, 2048, 2049} {
						runSeq([]ioOp{{Kind: "read", N: c10Sectors * 2048}, {Kind: "readat", N: n, Off: off}})
						runSeq([]ioOp{{Kind: "seek", Off: 0, Whence: io.SeekEnd}, {Kind: "readat", N: n, Off: off}, {Kind: "seek", Off: off, Whence: io.SeekStart}, {Kind: "read", N: n}})
						runSeq([]ioOp{{Kind: "seek", Off: off + 4096, Whence: io.SeekStart}, {Kind: "read", N: 1}, {Kind: "readat", N: n, Off: off}})
					}
				}
				// depth 2: sequential continuation at unaligned cursors, cursor independence of ReadAt, relative seeks
				for _, n1 := range c10Lens {
					for _, n2 := range c10Lens {
						if cp == 1 && n1+n2 > 5000 {
							continue
						}
						runSeq([]ioOp{{Kind: "read", N: n1}, {Kind: "read", N: n2}})
					}
					runSeq([]ioOp{{Kind: "read", N: n1}, {Kind: "readat", N: 2049, Off: 2047}, {Kind: "read", N: 17}})
					runSeq([]ioOp{{Kind: "read", N: n1}, {Kind: "seek", Off: 17, Whence: io.SeekCurrent}, {Kind: "read", N: 2048}})
					runSeq([]ioOp{{Kind: "seek", Off: -int64(n1), Whence: io.SeekEnd}, {Kind: "read", N: 4096}, {Kind: "read", N: 1}})
					// a refused seek (to before the start) leaves the cursor where it was
					runSeq([]ioOp{{Kind: "read", N: n1}, {Kind: "seek", Off: -1, Whence: io.SeekStart}, {Kind: "read", N: 2049}, {Kind: "seek", Off: -int64(n1) - 5000, Whence: io.SeekCurrent}, {Kind: "read", N: 100}})
					runSeq([]ioOp{{Kind: "seek", Off: 2047, Whence: io.SeekStart}, {Kind: "seek", Off: -1 << 40, Whence: io.SeekEnd}, {Kind: "read", N: n1}})
				}
				// coming back to an earlier position: read up to a place inside an encrypted sector (on and off the cipher's
				// block grid), read something unaligned elsewhere (same sector, another encrypted sector, a plain one), come
				// back and go on - whatever state the view keeps from the first read must not be taken for current
				if cp == 0 && cls == "valid" && (ti%4 == 0 || r.Thorough()) {
					var encS []int64
					for i := 1; i < int(tb.count) && 2*i < len(tb.pairs); i++ {
						for sct := int64(tb.pairs[2*i-1]) + 1; sct < int64(tb.pairs[2*i]) && sct < c10Sectors && len(encS) < 2; sct += max(1, int64(tb.pairs[2*i])-int64(tb.pairs[2*i-1])-2) {
							encS = append(encS, sct)
						}
					}
					for si, sct := range encS {
						other := encS[(si+1)%len(encS)]
						for _, d1 := range []int64{0, 16, 1024, 5} {
							for _, n1 := range []int{16, 32, 1000, 1024} {
								for _, p2 := range []int64{sct*2048 + 1, other*2048 + 3, 5} {
									for _, n2 := range []int{1, 15, 17, 100} {
										for _, n3 := range []int{16, 48, 2048} {
											p1 := sct*2048 + d1
											runSeq([]ioOp{{Kind: "seek", Off: p1, Whence: io.SeekStart}, {Kind: "read", N: n1}, {Kind: "seek", Off: p2, Whence: io.SeekStart}, {Kind: "read", N: n2},
												{Kind: "seek", Off: p1 + int64(n1), Whence: io.SeekStart}, {Kind: "read", N: n3}})
										}
									}
								}
							}
						}
					}
				}
				// an I/O error of the underlying file at the k-th operation: the failing call reports an error, and
				// whatever is read afterwards must again be reference plaintext of some position between the old
				// cursor and the end of the failed request (never bytes decrypted for the wrong sector)
				if cp == 0 && !clear && (ti%7 == 0 || r.Thorough()) {
					for _, off := range []int64{0, 2047, 3000, 2048*3 + 5} {
						for k := 0; k < 10; k++ {
							raw, err := osfs.Open(p)
							must(err)
							v := newVFs(osfs, "flt")
							v.record = false
							cnt := 0
							v.Hook = func(e FsEvent) *FsFault {
								if e.Op == "Read" || e.Op == "ReadAt" {
									cnt++
									if cnt-1 == k {
										return &FsFault{Err: syscall.EIO}
									}
								}
								return nil
							}
							view, err := pfs.NewEncryptedISO(v.wrap(raw, p), key, clear)
							if err != nil {
								raw.Close()
								continue
							}
							// the set of positions the view's cursor may be at (ambiguous after a failed request)
							cands := map[int64]bool{off: true}
							view.Seek(off, io.SeekStart)
							cnt = 0
							for step := 0; step < 5; step++ {
								n := []int{3000, 2049, 100, 4096, 513}[step]
								buf := make([]byte, n)
								var got int
								var rerr error
								func() {
									defer func() {
										if pv := recover(); pv != nil {
											rerr = errPanic{pv}
										}
									}()
									got, rerr = view.Read(buf)
								}()
								r.Transition(1)
								if _, isP := rerr.(errPanic); isP {
									r.Violation("C10:panic-after-io-error", sprintf("table %s: Read panicked around an injected I/O error (op %d): %v", tb.desc, k, rerr), rep(nil))
									break
								}
								next := map[int64]bool{}
								for c := range cands {
									if got > 0 && (c+int64(got) > int64(len(ref)) || !bytes.Equal(buf[:got], ref[c:c+int64(got)])) {
										continue
									}
									if rerr != nil && rerr != io.EOF {
										// the cursor may or may not have advanced over (part of) the failed request
										for d := int64(got); d <= int64(n); d++ {
											next[c+d] = true
										}
									} else {
										next[c+int64(got)] = true
									}
								}
								if len(next) == 0 {
									r.Outcome("garbage-after-io-error")
									r.Violation("C10:wrong-bytes-after-io-error", sprintf("table %s off=%d: injected I/O error at underlying op %d; Read at step %d returned %d bytes (err %v) that are not reference plaintext of any position the cursor can be at", tb.desc, off, k, step, got, rerr), rep(nil))
									break
								}
								cands = next
								if got == 0 && rerr == io.EOF {
									break
								}
							}
							view.Close()
							r.Outcome("io-error-continuation-ok")
						}
					}
				}
				// whole-image sequential copy (what decrypt / critical reads do)
				for _, bs := range []int{512, 2048, 32 * 1024, 3000} {
					var ops []ioOp
					for i := 0; i < c10Sectors*2048/bs+2; i++ {
						ops = append(ops, ioOp{Kind: "read", N: bs})
					}
					if cp == 0 || cp >= 16 {
						runSeq(ops)
					}
				}
				if ti%977 == 0 && cp == 0 && !clear {
					r.Sample(rep([]ioOp{{Kind: "readat", N: 2049, Off: 2047}}))
				}
			}
		}
		r.Nontrivial(tb.desc)
	}
	// 3k3y images with an embedded key, opened the way the server opens them (through the serving filesystem): the
	// watermark / key area 0xF70..0x1070 spans sectors 1 and 2, so tables whose first plain region ends at sector 1, 2
	// or 3 put part of that area into an encrypted region - decryption first, then the zeroing, nothing else altered
	k3root := filepath.Join(dir, "k3root")
	for ti, tb := range tables {
		if classifyTable(tb.count, tb.pairs) != "valid" || tb.count > 3 || tb.pairs[1] > 3 || tb.pairs[len(tb.pairs)-1] >= c10Sectors+2 {
			continue
		}
		caseIdx++
		if !r.Mine(caseIdx) || r.TimeUp() {
			continue
		}
		key := c10Keys[ti%len(c10Keys)]
		plain := patBytes(byte(90+ti%7), 0, c10Sectors*2048)
		copy(plain, regionTable(tb.pairs))
		copy(plain[0xF70:], wmEnc)
		copy(plain[0xF80:], key)
		edisk := buildEncImage(plain, tb.pairs, key)
		writeFileAbs(filepath.Join(k3root, "k3", "e.iso"), edisk, baseTime)
		want := zeroMask(refDecryptImage(edisk, tb.pairs, key, false))
		desc := "3k3y image with embedded key, table " + tb.desc
		r.State(desc)
		r.Nontrivial(desc)
		r.Eval(1)
		f, err := (&pfs.FS{Fs: afero.NewBasePathFs(osfs, k3root)}).OpenFile("/k3/e.iso", os.O_RDONLY, 0)
		if err != nil {
			r.Violation("C10:3k3y-open-failed", desc+": "+err.Error(), map[string]any{"table": tb.pairs})
			continue
		}
		st := &ioState{}
		var ops []ioOp
		for _, off := range []int64{0, 0xF6F, 0xF70, 0xF80, 0xFFF, 0x1000, 0x1001, 0x106F, 0x1070, 0x1071, 0x17FF, 0x1800, 2048 * 3} {
			ops = append(ops, ioOp{Kind: "readat", N: 300, Off: off}, ioOp{Kind: "seek", Off: off, Whence: io.SeekStart}, ioOp{Kind: "read", N: 2049})
		}
		ops = append(ops, ioOp{Kind: "seek", Off: 0, Whence: io.SeekStart})
		for i := 0; i < c10Sectors*2048/3000+2; i++ {
			ops = append(ops, ioOp{Kind: "read", N: 3000})
		}
		for i, op := range ops {
			why, class := applyOp(f, want, st, op, nil)
			r.Transition(1)
			if why != "" {
				r.Outcome("3k3y-view-bad")
				r.Violation("C10:3k3y-view:"+class, sprintf("%s: step %d %v: %s", desc, i, op, why), map[string]any{"table": tb.pairs, "ops": ops[:i+1]})
				break
			}
		}
		f.Close()
		r.Outcome("3k3y-view-ok")
	}
	r.Assume("crypto/aes block primitive is correct; reference CBC/key derivation are written here on raw block calls and cross-checked against openssl in TestRefCryptoOpenssl when openssl is present")
}

// anchorOpenssl cross-checks the reference CBC and key derivation against the openssl CLI (third-party anchor).
func anchorOpenssl(r *Reporter) {
	bin := ""
	for _, c := range []string{"/root/miniconda/bin/openssl", "/usr/bin/openssl", "/usr/local/bin/openssl"} {
		if _, err := os.Stat(c); err == nil {
			bin = c
			break
		}
	}
	if bin == "" {
		r.Note("openssl not found: reference crypto not anchored against a third-party implementation in this run")
		return
	}
	run := func(args []string, in []byte) []byte {
		cmd := exec.Command(bin, args...)
		cmd.Stdin = bytes.NewReader(in)
		out, err := cmd.Output()
		if err != nil {
			r.Note("openssl failed: " + err.Error())
			return nil
		}
		return out
	}
	n := 0
	for ki, d1 := range c10Keys {
		key := refDeriveKey(d1)
		got := run([]string{"enc", "-aes-128-cbc", "-nopad", "-K", hex.EncodeToString(refFixedKey[:]), "-iv", hex.EncodeToString(refFixedIV[:])}, d1)
		if got == nil {
			return
		}
		if !bytes.Equal(got, key) {
			r.HarnessError(sprintf("reference key derivation disagrees with openssl for key %d", ki))
			return
		}
		for _, sec := range []uint32{0, 1, 255, 256, 0x12345678} {
			pt := patBytes(byte(ki), int64(sec)*2048, 2048)
			ct := refCBCEncryptSector(key, sec, pt)
			iv := refSectorIV(sec)
			dec := run([]string{"enc", "-d", "-aes-128-cbc", "-nopad", "-K", hex.EncodeToString(key), "-iv", hex.EncodeToString(iv[:])}, ct)
			if dec == nil {
				return
			}
			if !bytes.Equal(dec, pt) || !bytes.Equal(refCBCDecryptSector(key, sec, ct), pt) {
				r.HarnessError(sprintf("reference sector cipher disagrees with openssl (key %d sector %d)", ki, sec))
				return
			}
			n++
		}
	}
	r.Extra("openssl_anchor_sectors", n)
}

// c10HugeImage: a sparse image of 2^21+64 sectors (4 GiB + 128 KiB) whose encrypted region ends at sector 2^21+10;
// the on-disk content around the 4 GiB mark is written explicitly, the reference is computed per sector.
func c10HugeImage(r *Reporter, dir string) {
	const S = 1 << 21
	key := c10Keys[1]
	pairs := []uint32{0, 1, S + 10, S + 20}
	p := filepath.Join(dir, "huge4g.iso")
	f, err := os.Create(p)
	must(err)
	defer os.Remove(p)
	must(f.Truncate(int64(S+64) * 2048))
	_, err = f.WriteAt(regionTable(pairs), 0)
	must(err)
	dk := refDeriveKey(key)
	// plaintext pattern for sectors S-4 .. S+24, stored encrypted where the table says so
	want := map[int64][]byte{}
	for sct := int64(S - 4); sct < S+24; sct++ {
		plain := patBytes(byte(sct), sct*2048, 2048)
		want[sct] = plain
		disk := plain
		if sct > 1 && sct < S+10 {
			disk = refCBCEncryptSector(dk, uint32(sct), plain)
		}
		_, err = f.WriteAt(disk, sct*2048)
		must(err)
	}
	must(f.Close())
	lo, hi := int64(S-4)*2048, int64(S+24)*2048
	ref := func(off int64, n int) []byte {
		out := make([]byte, 0, n)
		for len(out) < n {
			sct := off / 2048
			in := off % 2048
			k := min(n-len(out), int(2048-in))
			out = append(out, want[sct][in:int(in)+k]...)
			off += int64(k)
		}
		return out
	}
	for _, cp := range []int{0, 1000} {
		raw, err := afero.NewOsFs().Open(p)
		must(err)
		var fl afero.File = raw
		if cp > 0 {
			v := newVFs(afero.NewOsFs(), "cap")
			v.record = false
			v.Hook = func(e FsEvent) *FsFault {
				if e.Op == "Read" && e.N > cp {
					return &FsFault{Short: cp}
				}
				return nil
			}
			fl = v.wrap(raw, p)
		}
		view, err := pfs.NewEncryptedISO(fl, key, false)
		r.Transition(1)
		if err != nil {
			r.Violation("C10:huge-image:open", "valid table with borders beyond 4 GiB rejected: "+err.Error(), nil)
			fl.Close()
			continue
		}
		bad := func(kind string, off int64, n int, got []byte, err error) bool {
			if err != nil && err != io.EOF {
				r.Violation("C10:huge-image:"+kind+"-error", sprintf("image of 4 GiB + 128 KiB, read cap %d: %s of %d bytes at %d failed: %v", cp, kind, n, off, err), map[string]any{"offset": off, "n": n})
				return true
			}
			if d := describeDiff(got, ref(off, len(got))); d != "" || len(got) != n {
				r.Violation("C10:huge-image:"+kind+"-wrong-bytes", sprintf("image of 4 GiB + 128 KiB, read cap %d: %s of %d bytes at %d (sector 2^21%+d): got %d bytes, %s", cp, kind, n, off, off/2048-S, len(got), d), map[string]any{"offset": off, "n": n})
				return true
			}
			return false
		}
		nbad := 0
		for off := lo; off+4200 <= hi && nbad < 4; off += 1023 {
			for _, n := range []int{1, 2048, 4100} {
				buf := make([]byte, n)
				k, err := view.ReadAt(buf, off)
				r.Transition(1)
				if bad("readat", off, n, buf[:k], err) {
					nbad++
				}
				if _, err := view.Seek(off, io.SeekStart); err != nil {
					r.Violation("C10:huge-image:seek", sprintf("seek to %d failed: %v", off, err), nil)
					nbad++
					continue
				}
				got, err := readFullRSRA(view, n)
				r.Transition(1)
				if bad("read", off, n, got, err) {
					nbad++
				}
			}
		}
		r.State(sprintf("huge-image cap=%d", cp))
		r.Nontrivial(sprintf("huge-image cap=%d", cp))
		r.Outcome("huge-image-checked")
		view.Close()
	}
}

func readFullRSRA(v rsra, n int) ([]byte, error) {
	buf := make([]byte, n)
	got := 0
	for got < n {
		k, err := v.Read(buf[got:])
		got += k
		if err != nil {
			return buf[:got], err
		}
		if k == 0 {
			return buf[:got], io.ErrNoProgress
		}
	}
	return buf, nil
}
