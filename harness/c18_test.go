package verifh

import (
	"bytes"
	"fmt"
	"io"
	"os"
	"path/filepath"
	"syscall"
	"testing"
	"testing/synctest"
	"time"

	"github.com/spf13/afero"

	pfs "github.com/xakep666/ps3netsrv-go/pkg/fs"
)

// C18: re-opening an unchanged directory yields the same image layout.

func TestC18(t *testing.T) {
	r := NewReporter(t)
	defer r.Done()
	r.Rule("(a) every tree with <= N nodes x {plain, PS3}: successive opens with the virtual clock advanced by {0, 1 s, 1 h, 400 d} between them, library view (sequential reads, io.Copy with and without the optional fast paths, a positional section reader; for every 5th tree the real make-iso to a file and to standard output) and over the protocol, and reads by absolute offset at every structural boundary +-1 on a fresh open into dirty buffers; (a') a 150-entry directory opened with per-name answer latencies that differ from open to open; (b) two concurrent opens+reads of the same tree under the controlled scheduler (scheduling points = leaf filesystem operations, all interleavings with <= 2/3 preemptions) for 4 representative trees; (c) for these and a PS3 tree with decoy PARAM.SFO files: an open disturbed by one deviation at every leaf filesystem operation index (EIO, EINTR, short reads of 1 / half / all-but-one / 5 / 7 / 8 bytes) fails or yields the same image and stays readable; oracle: equal size, byte-equal outside the PVD/SVD creation/modification timestamps and PS3 sector-1 filler; distinct by (tree, mode, gap | schedule)")
	base := filepath.Join(scratchBase(), sprintf("verifh-c18-%d", os.Getpid()))
	root := filepath.Join(base, "root")
	defer os.RemoveAll(base)
	maxNodes := 3
	if r.Thorough() {
		maxNodes = 4
	}
	gaps := []time.Duration{0, time.Second, time.Hour, 400 * 24 * time.Hour}
	idx := 0
	build := func(tr Tree, ps3 bool) {
		os.RemoveAll(root)
		dir := filepath.Join(root, "T")
		must(os.MkdirAll(dir, 0o755))
		tr.Materialize(dir)
		if ps3 {
			writeFileAbs(filepath.Join(dir, "PS3_GAME", "PARAM.SFO"), mkSFO([]sfoKV{{"TITLE_ID", "BLES01234"}}), baseTime)
		}
	}
	readLib := func(ps3 bool) ([]byte, int64, error) {
		v, err := openVISO(root, "/T", ps3)
		if err != nil {
			return nil, 0, err
		}
		defer v.Close()
		st, _ := v.Stat()
		img, err := canonicalImage(v, 1<<20, st.Size()+1<<20)
		return img, st.Size(), err
	}
	// one serving filesystem value opening the same unchanged directory five times, in both modes alternately: every
	// open equals the image a fresh generator builds (outside the declared variable fields)
	isoChangingTree(r, "C18", base, &idx, true)
	for n := 0; n <= maxNodes; n++ {
		enumTrees(n, c09Sizes(), func(tr Tree) {
			for _, ps3 := range []bool{false, true} {
				idx++
				if !r.Mine(idx) || r.TimeUp() {
					continue
				}
				build(tr, ps3)
				odd := ""
				if idx%3 == 0 && len(tr.Nodes) > 0 {
					// unusual modification times (outside what a directory record's one-byte year can hold, zero time)
					years := []int{2200, 1601, 1969, 2156}
					for ni := range tr.Nodes {
						y := years[(idx/3+ni)%len(years)]
						mt := time.Date(y, 5, 6, 7, 8, 9, 0, time.UTC)
						os.Chtimes(filepath.Join(root, "T", tr.Path(ni)), mt, mt)
					}
					odd = " odd-mtimes"
				}
				desc := sprintf("tree[%s] ps3=%v%s", tr.String(), ps3, odd)
				mask := isoVarMask(ps3)
				rep := map[string]any{"tree": tr.Nodes, "ps3": ps3}
				var firstOut []byte
				toolCheck := func() {
					// ... and make-iso (to a file, to standard output) is one more open of the same unchanged tree; run
					// outside the bubble (a real process) for every 5th tree
					if firstOut == nil || binPath() == "" || (idx/r.NShards)%5 != 0 {
						return
					}
					args := []string{"make-iso"}
					if ps3 {
						args = append(args, "--ps3-mode")
					}
					for _, target := range []string{"file", "stdout"} {
						out := filepath.Join(base, "tool.iso")
						os.Remove(out)
						var code int
						var stderr string
						var err error
						if target == "file" {
							code, _, stderr, err = runTool(append(args, filepath.Join(root, "T"), out), cleanEnv(base), base, "", 120*time.Second)
						} else {
							code, _, stderr, err = runTool(append(args, filepath.Join(root, "T"), "-"), cleanEnv(base), base, out, 120*time.Second)
						}
						r.Trace(1)
						data, _ := os.ReadFile(out)
						os.Remove(out)
						if err != nil || code != 0 {
							r.Violation("C18:make-iso-failed", sprintf("%s: make-iso to %s: exit %d %v %s", desc, target, code, err, lastLines(stderr, 3)), rep)
							return
						}
						if len(data) != len(firstOut) {
							r.Outcome("make-iso-size-differs")
							r.Violation("C18:make-iso-size-differs:"+target, sprintf("%s: make-iso to %s delivered %d bytes, the first open of the same tree %d", desc, target, len(data), len(firstOut)), rep)
							return
						}
						if d := maskedEqual(firstOut, data, mask); d != "" {
							r.Outcome("make-iso-bytes-differ")
							r.Violation("C18:make-iso-bytes-differ:"+target, sprintf("%s: image written by make-iso to %s differs from the first open outside the variable fields: %s", desc, target, d), rep)
							return
						}
						r.Outcome("make-iso-same:" + target)
					}
				}
				synctest.Test(t, func(t *testing.T) {
					first, size0, err := readLib(ps3)
					firstOut = first
					r.Transition(1)
					if err != nil {
						r.Violation("C18:create-failed", desc+": "+err.Error(), rep)
						return
					}
					for _, g := range gaps {
						time.Sleep(g)
						again, size1, err := readLib(ps3)
						r.Transition(1)
						key := sprintf("%s gap=%v", desc, g)
						r.State(key)
						r.Nontrivial(key)
						r.Eval(1)
						if err != nil {
							r.Violation("C18:reopen-failed", key+": "+err.Error(), rep)
							return
						}
						if size0 != size1 {
							r.Outcome("size-differs")
							r.Violation("C18:size-differs", sprintf("%s: first open announced %d bytes, re-open %d", key, size0, size1), rep)
							return
						}
						if d := maskedEqual(first, again, mask); d != "" {
							r.Outcome("bytes-differ")
							r.Violation("C18:bytes-differ-on-reopen", sprintf("%s: re-opened image differs outside the variable fields: %s", key, d), rep)
							return
						}
						r.Outcome("same")
					}
					// other consumers of a fresh open (io.Copy picks an optional fast path of the source or of the destination,
					// a section reader works positionally, the offline tool copies with io.Copy): the same image whoever reads
					for ci, consumer := range []string{"io.Copy into a buffer", "io.Copy into a plain writer", "io.CopyBuffer from a plain reader", "section reader"} {
						v, err := openVISO(root, "/T", ps3)
						if err != nil {
							r.Violation("C18:reopen-failed", desc+": "+err.Error(), rep)
							return
						}
						var buf bytes.Buffer
						func() {
							defer func() {
								if p := recover(); p != nil {
									err = fmt.Errorf("PANIC: %v", p)
								}
							}()
							switch ci {
							case 0:
								_, err = io.Copy(&buf, v)
							case 1:
								_, err = io.Copy(struct{ io.Writer }{&buf}, v)
							case 2:
								_, err = io.CopyBuffer(struct{ io.Writer }{&buf}, struct{ io.Reader }{v}, make([]byte, 3000))
							case 3:
								_, err = io.Copy(&buf, io.NewSectionReader(v, 0, size0))
							}
						}()
						v.Close()
						r.Transition(1)
						r.Eval(1)
						if err != nil {
							r.Outcome("consumer-failed")
							r.Violation("C18:consumer-failed", sprintf("%s: %s failed after %d bytes: %v", desc, consumer, buf.Len(), err), rep)
							return
						}
						if int64(buf.Len()) != size0 {
							r.Outcome("consumer-size-differs")
							r.Violation("C18:consumer-size-differs", sprintf("%s: %s delivered %d bytes, the first open announced and delivered %d", desc, consumer, buf.Len(), size0), rep)
							return
						}
						if d := maskedEqual(first, buf.Bytes(), mask); d != "" {
							r.Outcome("consumer-bytes-differ")
							r.Violation("C18:consumer-bytes-differ", sprintf("%s: image taken by %s differs from the first open outside the variable fields: %s", desc, consumer, d), rep)
							return
						}
						r.Outcome("consumer-same")
					}
					// "a client that reconnects can keep reading by absolute offset": on a fresh open, reads that start at
					// every structural boundary +-1 (inside files, inside the zero tail of a file's last sector, inside the
					// padding), into buffers that still hold other data, return the bytes of the first open
					if v, err := openVISO(root, "/T", ps3); err == nil {
						st := &ioState{}
						for _, b := range structuralBoundaries(first) {
							for _, d := range []int64{-1, 1, 700} {
								off := b + d
								if off < 0 || off >= int64(len(first)) {
									continue
								}
								for _, op := range []ioOp{{Kind: "readat", N: 100, Off: off}, {Kind: "seek", Off: off, Whence: io.SeekStart}, {Kind: "read", N: 1500}} {
									why, class := applyOp(v, first, st, op, mask)
									r.Transition(1)
									if why != "" {
										r.Outcome("resume-differs")
										r.Violation("C18:resume-by-offset:"+class, sprintf("%s: on a fresh open, %s", desc, why), rep)
										v.Close()
										return
									}
								}
							}
						}
						v.Close()
						r.Outcome("resume-same")
					}
				})
				toolCheck()
				// over the protocol (another connection, later)
				if idx%8 == 0 {
					pre := "/***DVD***/T"
					if ps3 {
						pre = "/***PS3***/T"
					}
					lib, _, _ := readLib(ps3)
					served, _, why := serveWhole(t, root, pre)
					r.Transition(1)
					if why != "" {
						r.Violation("C18:served-unreadable", desc+": "+why, rep)
					} else if d := maskedEqual(lib, served, mask); d != "" {
						r.Violation("C18:served-differs-from-library", desc+": image over the protocol vs library view: "+d, rep)
					} else {
						r.Outcome("served-same")
					}
				}
			}
		})
	}
	// (a') a directory with many entries on a filesystem whose answers take different (virtual) time from open to open:
	// whatever the generator does in parallel, the layout must not depend on which answer comes first
	idx++
	if r.Mine(idx) {
		os.RemoveAll(root)
		for i := 0; i < 150; i++ {
			mkFileAbs(filepath.Join(root, "T", "USRDIR", sprintf("f%03d.bin", i)), int64(1+i%5*1000), byte(i), baseTime)
			if i%10 == 0 {
				mkFileAbs(filepath.Join(root, "T", "USRDIR", sprintf("d%03d", i), "x.bin"), 5, byte(i), baseTime)
			}
		}
		writeFileAbs(filepath.Join(root, "T", "PS3_GAME", "PARAM.SFO"), mkSFO([]sfoKV{{"TITLE_ID", "BLES01234"}}), baseTime)
		for _, ps3 := range []bool{false, true} {
			mask := isoVarMask(ps3)
			var first []byte
			for k := 0; k < 5; k++ {
				var img []byte
				var err error
				synctest.Test(t, func(t *testing.T) {
					leaf := newVFs(afero.NewOsFs(), "leaf")
					leaf.record = false
					leaf.Hook = func(e FsEvent) *FsFault {
						// open k delays the answers about every name whose number is k modulo 4 (k = 0: nobody)
						if k > 0 && (e.Op == "Stat" || e.Op == "Lstat" || e.Op == "Open") {
							var n int
							if c, _ := fmt.Sscanf(filepath.Base(e.Path), "f%d.bin", &n); c == 1 && n%4 == k-1 {
								time.Sleep(40 * time.Millisecond)
							}
						}
						return nil
					}
					var v *pfs.VirtualISO
					v, err = pfs.NewVirtualISO(afero.NewBasePathFs(leaf, root), "/T", ps3)
					if err != nil {
						return
					}
					st, _ := v.Stat()
					img, err = canonicalImage(v, 1<<20, st.Size()+1<<20)
					v.Close()
				})
				r.Transition(1)
				r.Eval(1)
				key := sprintf("150-entry directory ps3=%v latency pattern %d", ps3, k)
				r.State(key)
				r.Nontrivial(key)
				if err != nil {
					r.Violation("C18:latency:create-failed", key+": "+err.Error(), nil)
					break
				}
				if k == 0 {
					first = img
					continue
				}
				if d := maskedEqual(first, img, mask); d != "" {
					r.Outcome("latency-changes-layout")
					r.Violation("C18:latency-changes-layout", sprintf("%s: the image differs from the one built without delays (sizes %d / %d): %s", key, len(first), len(img), d), map[string]any{"ps3": ps3, "pattern": k})
					break
				}
				r.Outcome("latency-same")
			}
		}
	}
	// (b) concurrent opens under the controlled scheduler
	bound := 2
	if r.Thorough() {
		bound = 3
	}
	reps := []Tree{
		{Nodes: []TreeNode{{Parent: -1, Size: 2049, Name: "a"}, {Parent: -1, Size: 1, Name: "B.TXT"}}},
		{Nodes: []TreeNode{{Parent: -1, Dir: true, Name: "a"}, {Parent: 0, Size: 2048, Name: "a"}, {Parent: -1, Size: 0, Name: "B.TXT"}}},
		{Nodes: []TreeNode{{Parent: -1, Dir: true, Name: "c d"}, {Parent: 0, Dir: true, Name: "é"}, {Parent: 1, Size: 2047, Name: "a"}}},
		{Nodes: []TreeNode{{Parent: -1, Size: 1, Name: "a"}}},
		// PS3 mode with decoys: other PARAM.SFO files with other title ids next to the real one (multi-title disc
		// folders, backups, a copy in USRDIR) - a disturbed open must not pick up one of them instead
		{Nodes: []TreeNode{{Parent: -1, Size: 2049, Name: "a"}}},
	}
	for ti, tr := range reps {
		ps3 := ti >= 3
		decoys := ti == 4
		build(tr, ps3)
		if decoys {
			for p, id := range map[string]string{"PS3_GM01/PARAM.SFO": "BLES54321", "PARAM.SFO": "BCUS11111", "PS3_GAME/USRDIR/PARAM.SFO": "NPUB22222", "PS3_GAME/PARAM.SFO.bak": "BLJM33333", "PS3_GAMEX/PARAM.SFO": "BCES44444"} {
				writeFileAbs(filepath.Join(root, "T", p), mkSFO([]sfoKV{{"TITLE_ID", id}}), baseTime)
			}
		}
		solo, _, err := readLib(ps3)
		if err != nil {
			continue
		}
		mask := isoVarMask(ps3)
		desc := sprintf("concurrent tree[%s] ps3=%v", tr.String(), ps3)
		run := func(prefix []int) []schedPoint {
			var pts []schedPoint
			var imgs [2][]byte
			var errs [2]error
			var diverge string
			synctest.Test(t, func(t *testing.T) {
				sched := newSched(prefix)
				leaf := newVFs(afero.NewOsFs(), "leaf")
				leaf.record = false
				leaf.Hook = func(e FsEvent) *FsFault {
					sched.Point("fs." + e.Op)
					return nil
				}
				bfs := afero.NewBasePathFs(leaf, root)
				done := make(chan struct{}, 2)
				for k := 0; k < 2; k++ {
					k := k
					go func() {
						defer func() {
							if p := recover(); p != nil {
								errs[k] = errPanic{p}
							}
							done <- struct{}{}
						}()
						sched.register(k + 1)
						sched.Point("start")
						v, err := pfs.NewVirtualISO(bfs, "/T", ps3)
						if err != nil {
							errs[k] = err
							return
						}
						defer v.Close()
						st, _ := v.Stat()
						imgs[k], errs[k] = canonicalImage(v, 65536, st.Size()+1<<20)
					}()
				}
				sched.Run()
				pts = sched.points
				diverge = sched.mismatch
				synctest.Wait()
			})
			r.Transition(int64(len(pts)))
			r.Eval(1)
			key := sprintf("%s|%v", desc, choicesOf(pts))
			r.State(key)
			if preemptionsBefore(pts, len(pts)) > 0 {
				r.Nontrivial(key)
			}
			if diverge != "" {
				r.HarnessError(desc + ": " + diverge)
				return pts
			}
			rep := map[string]any{"tree": tr.Nodes, "ps3": ps3, "choices": choicesOf(pts)}
			for k := 0; k < 2; k++ {
				if errs[k] != nil {
					r.Violation("C18:concurrent-open-failed", sprintf("%s schedule %v: open %d failed: %v", desc, compactChoices(pts), k, errs[k]), rep)
					return pts
				}
				if d := maskedEqual(solo, imgs[k], mask); d != "" {
					r.Outcome("concurrent-differs")
					r.Violation("C18:concurrent-open-differs", sprintf("%s schedule %v: image %d differs from the image built alone: %s", desc, compactChoices(pts), k, d), rep)
					return pts
				}
			}
			r.Outcome("concurrent-same")
			return pts
		}
		// (c) an open disturbed by one I/O fault (error at every leaf operation index in turn) either fails or yields
		// the very same image: a client that reconnects after a hiccup must not find the layout shifted
		if r.Shard == ti%r.NShards {
			probe := newVFs(afero.NewOsFs(), "leaf")
			probe.record = false
			if v, err := pfs.NewVirtualISO(afero.NewBasePathFs(probe, root), "/T", ps3); err == nil {
				st, _ := v.Stat()
				canonicalImage(v, 1<<20, st.Size()+1<<20)
				v.Close()
			}
			nops := probe.Seq()
			// deviations: two errnos, and legal short reads of 1, half, all-but-one, 5, 7 and 8 bytes
			const ndev = 8
			for i2 := 0; i2 < ndev*nops; i2++ {
				i := i2 / ndev
				var ferr error
				short := 0
				switch i2 % ndev {
				case 0:
					ferr = syscall.EIO
				case 1:
					ferr = syscall.EINTR // an errno callers like to retry on
				case 2:
					short = 1 // a legal short read: must change nothing at all
				case 3:
					short = -2 // half of what was asked for
				case 4:
					short = -1 // all but one byte
				default:
					short = []int{5, 7, 8}[i2%ndev-5]
				}
				leaf := newVFs(afero.NewOsFs(), "leaf")
				leaf.record = false
				leaf.Hook = func(e FsEvent) *FsFault {
					if e.Seq != i {
						return nil
					}
					if ferr != nil {
						return &FsFault{Err: ferr}
					}
					if e.Op != "Read" || e.N < 2 {
						return nil
					}
					switch {
					case short == -2:
						return &FsFault{Short: (e.N + 1) / 2}
					case short == -1:
						return &FsFault{Short: e.N - 1}
					case short >= e.N:
						return nil
					}
					return &FsFault{Short: short}
				}
				var img []byte
				var size int64
				var err, readBroken error
				func() {
					defer func() {
						if p := recover(); p != nil {
							err = errPanic{p}
						}
					}()
					var v *pfs.VirtualISO
					v, err = pfs.NewVirtualISO(afero.NewBasePathFs(leaf, root), "/T", ps3)
					if err != nil {
						return
					}
					defer v.Close()
					opsAtOpen := leaf.Seq()
					st, _ := v.Stat()
					size = st.Size()
					img, err = canonicalImage(v, 1<<20, size+1<<20)
					if err != nil && i < opsAtOpen {
						// the fault was consumed while opening, the open succeeded, and now fault-free reads fail
						readBroken = err
						err = nil
					}
				}()
				r.Transition(1)
				key := sprintf("%s fault@%d/%v/%d", desc, i, ferr, short)
				r.State(key)
				r.Nontrivial(key)
				if _, isPanic := err.(errPanic); isPanic {
					r.Violation("C18:fault-panic", sprintf("%s: panic under an I/O error at leaf operation %d: %v", desc, i, err), map[string]any{"tree": tr.Nodes, "ps3": ps3, "fault_at": i})
					continue
				}
				if readBroken != nil {
					r.Outcome("faulted-open-unreadable")
					r.Violation("C18:faulted-open-unreadable", sprintf("%s: an open disturbed by %v at leaf operation %d succeeded (size %d) but the image cannot be read without any further fault: %v", desc, ferr, i, size, readBroken), map[string]any{"tree": tr.Nodes, "ps3": ps3, "fault_at": i})
					continue
				}
				if err != nil {
					r.Outcome("faulted-open-fails")
					continue
				}
				if d := maskedEqual(solo, img, mask); d != "" {
					r.Outcome("faulted-open-differs")
					r.Violation("C18:faulted-open-differs", sprintf("%s: an open disturbed by an I/O error or short read at leaf operation %d succeeded with a different image (size %d vs %d): %s", desc, i, size, len(solo), d), map[string]any{"tree": tr.Nodes, "ps3": ps3, "fault_at": i})
					continue
				}
				r.Outcome("faulted-open-same")
			}
		}
		if decoys {
			continue // only part (c) for this tree
		}
		execs, complete := exploreSchedules(bound, r.Shard, r.NShards, run, r.TimeUp)
		r.ExtraAdd("concurrent_executions", int64(execs))
		if !complete {
			r.NotExhaustive("concurrent-open exploration stopped at the internal deadline")
		}
	}
	if r.Shard == 0 {
		runRaceAdjunct(r, "C18")
	}
	r.Assume("race freedom of concurrent image builds is only sampled by the -race adjunct (shared with C12)")
}
