package verifh

import (
	"fmt"
	"bytes"
	"os"
	"path/filepath"
	"sort"
	"strings"
	"testing"
	"testing/synctest"

	"github.com/spf13/afero"
)

// C12: connections are isolated from each other under concurrency.
// Schedule exploration: all interleavings of the server's connection goroutines (scheduling points = every
// connection and leaf filesystem operation) with a bounded number of preemptions; each client's response stream
// must equal the stream of the same script run alone.

type c12Scenario struct {
	name    string
	failAt  map[int]int64 // client index -> server writes to it fail after this many response bytes
	framing map[int]bool  // clients whose data legitimately depends on the interleaving (a file they read is rewritten by
	// another client): only the framing of their stream is judged, not its content
	clients [][]Req
	hold    map[int]bool // clients that stay connected (no FIN) until everybody else is done: an idle neighbour
	after   map[int]int  // client index -> index of the client whose script must have been consumed (request bytes and FIN read by the server) before this one connects
	allow   bool
	maxB    int // > 0: preemption bound cap for this scenario (three-client scenarios: the bound-3 space is out of reach)
	reset   func()
	files   map[string][]byte // expected uploaded contents (path -> bytes)
}

type c12Out struct {
	streams [][]byte
	early   [][]byte // what each client had received when nothing could run any more, before idle neighbours left
	points  []schedPoint
	leaked  []string
	aborted string
	diverge string
	order   string // global order of response writes (non-vacuity witness)
	closed  []bool
	unread  []int // request bytes the server had not consumed when it closed the connection
}

func c12Exec(t *testing.T, root string, sc c12Scenario, only int, prefix []int) *c12Out {
	out := &c12Out{}
	if sc.reset != nil {
		sc.reset()
	}
	synctest.Test(t, func(t *testing.T) {
		sched := newSched(prefix)
		sched.auto = true
		leaf := newVFs(afero.NewOsFs(), "leaf")
		leaf.record = false
		leaf.Hook = func(e FsEvent) *FsFault {
			sched.Point("fs." + e.Op)
			return nil
		}
		leaf.After = func(e FsEvent) { sched.Point("fs." + e.Op + ".done") }
		h := buildHandler(SrvOpts{Root: root, AllowWrite: sc.allow, LeafWrap: func(afero.Fs) afero.Fs { return leaf }})
		ln := newListener()
		ln.hook = func(op string) {
			sched.register(0)
			sched.Point(op)
		}
		s := startSrvWith(h, ln, 0)
		var conns []*Conn
		var order bytes.Buffer
		conns = make([]*Conn, len(sc.clients))
		var dial func(i int)
		dial = func(i int) {
			c := s.ln.Dial(nil)
			if fa, ok := sc.failAt[i]; ok {
				c.outFailAt = fa
			}
			id := i
			c.hook = func(c *Conn, op string) {
				sched.register(id + 1)
				if op == "conn.Write" {
					order.WriteByte(byte('A' + id))
				}
				if op == "conn.Read" && only < 0 {
					// the server is about to read the end of this client's stream: clients waiting for that connect now
					c.mu.Lock()
					drained := len(c.in) == 0 && c.inEOF
					c.mu.Unlock()
					if drained {
						for j, dep := range sc.after {
							if dep == id && conns[j] == nil {
								dial(j)
							}
						}
					}
				}
				sched.Point(op)
			}
			for _, rq := range sc.clients[i] {
				c.Send(rq.Encode())
			}
			if !sc.hold[i] || only >= 0 {
				c.Fin()
			}
			conns[i] = c
			s.conns = append(s.conns, c)
		}
		for i := range sc.clients {
			if only >= 0 && i != only {
				continue
			}
			if _, late := sc.after[i]; late && only < 0 {
				continue
			}
			dial(i)
		}
		sched.Run()
		out.points = sched.points
		out.aborted = sched.aborted
		out.diverge = sched.mismatch
		sched.mu.Lock()
		sched.pass = true
		sched.mu.Unlock()
		for _, c := range conns {
			if c == nil {
				out.early = append(out.early, nil)
			} else {
				out.early = append(out.early, c.Peek())
			}
		}
		for i, c := range conns {
			if c != nil && sc.hold[i] && only < 0 {
				c.Fin() // the idle neighbour leaves at last
			}
		}
		synctest.Wait()
		s.ln.Close()
		synctest.Wait()
		for _, c := range conns {
			if c == nil {
				out.streams = append(out.streams, nil)
				out.closed = append(out.closed, true)
				out.unread = append(out.unread, 0)
				continue
			}
			out.streams = append(out.streams, c.Take())
			out.closed = append(out.closed, c.ServerClosed())
			c.mu.Lock()
			out.unread = append(out.unread, c.closeUnread)
			c.mu.Unlock()
		}
		out.leaked = leaf.Outstanding()
		out.order = order.String()
	})
	return out
}

func TestC12(t *testing.T) {
	r := NewReporter(t)
	defer r.Done()
	r.Rule("14 scenarios of 2-3 connections whose requests collide (same plain file, same generated image across member boundaries, CD images of different sector size, CD images of equal name and length but different layout in two directories, 3k3y images with different embedded keys opened next to other opens, two directory enumerations, uploads into sibling files, churn, a client connecting while another one's teardown is running, an uploader next to a client whose mutations are refused, an idle neighbour that stays connected); scheduling points = every connection read/write/close, every accept and every leaf filesystem operation of the server goroutines; all interleavings with <= 2 (quick) / <= 3 (thorough; 2 for the three-client scenarios) preemptions; oracle: each client's response stream equals the stream of its script run alone, connection closed, handle ledger empty, uploaded files exact; distinct by schedule (choice sequence)")
	w, _ := buildC02World(t, r)
	defer w.Cleanup()
	mkCDImage(w.Root, cdImg{name: "cd2336.bin", sector: 2336, sig: "psx", size: 0x200000}, 3)
	mkCDImage(w.Root, cdImg{name: "cd2448.bin", sector: 2448, sig: "iso", size: 0x200000}, 4)
	w.File("d/one.bin", 10, 1)
	w.File("d/two.bin", 20, 2)
	w.MkDir("d/three")
	resetW := func() {
		os.RemoveAll(filepath.Join(w.Root, "w"))
		w.MkDir("w")
	}
	// two disc images of the same base name and length but different sector layout, in different directories
	mkCDImage(w.Root, cdImg{name: "coll/Game A/disc1.bin", sector: 2352, sig: "psx", size: 0x200000}, 5)
	mkCDImage(w.Root, cdImg{name: "coll/Game B/disc1.bin", sector: 2048, sig: "iso", size: 0x200000}, 6)
	// a second 3k3y image with an embedded key of its own
	{
		pairs := []uint32{0, 2, 5, 7, 10, 11}
		plain := patBytes(33, 0, 12*2048)
		copy(plain, regionTable(pairs))
		copy(plain[0xF70:], wmEnc)
		copy(plain[0xF80:], c10Keys[1])
		w.Data("k3/e2.iso", buildEncImage(plain, pairs, c10Keys[1]))
	}
	pa, pb := patBytes(1, 0, 70000), patBytes(2, 0, 65537)
	scs := []c12Scenario{
		{name: "same-plain-file", clients: [][]Req{
			{mkReq(opOpenFile, "/plain/f131073.bin"), rdReq(0, 70000), rdcReq(65536, 65537), rdReq(131000, 100)},
			{mkReq(opOpenFile, "/plain/f131073.bin"), rdcReq(1, 131072), rdReq(5, 10)}}},
		{name: "same-generated-image", clients: [][]Req{
			{mkReq(opOpenFile, "/***DVD***/game"), rdcReq(24*2048, 100000), rdReq(0, 4096)},
			{mkReq(opOpenFile, "/***DVD***/game"), rdReq(30*2048+5, 70000), rdcReq(16*2048, 2048)}}},
		{name: "cd-different-sector-size", clients: [][]Req{
			{mkReq(opOpenFile, "/cd2336.bin"), cdReq(1, 3), cdReq(16, 1)},
			{mkReq(opOpenFile, "/cd2448.bin"), cdReq(1, 3), cdReq(0, 1)}}},
		{name: "cd-same-name-different-layout", clients: [][]Req{
			{mkReq(opOpenFile, "/coll/Game A/disc1.bin"), cdReq(1, 2), cdReq(16, 1)},
			{mkReq(opOpenFile, "/coll/Game B/disc1.bin"), cdReq(1, 2), cdReq(16, 1)}}},
		// an image decrypted with its embedded key while other connections open other files (every open probes for a
		// watermark and a key): the key in use belongs to the connection's own image
		{name: "embedded-keys", clients: [][]Req{
			{mkReq(opOpenFile, "/k3/e.iso"), rdcReq(3*2048-5, 2100), rdReq(0xF60, 300)},
			{mkReq(opOpenFile, "/plain/f65536.bin"), rdReq(0xF00, 600), mkReq(opOpenFile, "/k3/e2.iso"), rdcReq(3*2048, 2048)}}},
		{name: "two-enumerations", clients: [][]Req{
			{mkReq(opOpenDir, "/d"), noargReq(opReadDirEntry), noargReq(opReadDirEntry), noargReq(opReadDirEntry), noargReq(opReadDirEntry)},
			{mkReq(opOpenDir, "/k3"), noargReq(opReadDirEntryV2), noargReq(opReadDir), mkReq(opOpenDir, "/d"), noargReq(opReadDir)}}},
		{name: "sibling-uploads", allow: true, reset: resetW, files: map[string][]byte{"w/a.bin": append(append([]byte{}, pa...), []byte("tail-a")...), "w/b.bin": pb}, clients: [][]Req{
			{mkReq(opCreateFile, "/w/a.bin"), wrReq(pa), wrReq([]byte("tail-a"))},
			{mkReq(opCreateFile, "/w/b.bin"), wrReq(pb), mkReq(opGetDirSize, "/d")}}},
		{name: "aborted-transfer-then-two", maxB: 2, failAt: map[int]int64{0: 70000}, clients: [][]Req{
			{mkReq(opOpenFile, "/plain/f131073.bin"), rdcReq(0, 131073)},
			{mkReq(opOpenFile, "/plain/f65536.bin"), rdcReq(0, 65536), rdcReq(0, 65536)},
			{mkReq(opOpenFile, "/plain/f65537.bin"), rdcReq(1, 65536), rdcReq(1, 65536)}}},
		{name: "aborted-ordinary-read-then-two", maxB: 2, failAt: map[int]int64{0: 30000}, clients: [][]Req{
			{mkReq(opOpenFile, "/plain/f131073.bin"), rdReq(0, 131073)},
			{mkReq(opOpenFile, "/plain/f65536.bin"), rdReq(0, 65536), rdReq(100, 1000)},
			{mkReq(opOpenFile, "/plain/f65537.bin"), rdReq(1, 65536), rdReq(7, 900)}}},
		{name: "reader-vs-rewriting-writer", allow: true, framing: map[int]bool{0: true}, reset: func() {
			resetW()
			w.File("w/shared.bin", 5000, 6)
		}, clients: [][]Req{
			{mkReq(opOpenFile, "/w/shared.bin"), rdReq(0, 4000), rdReq(3000, 4000), rdReq(100, 100), mkReq(opStatFile, "/plain")},
			{mkReq(opCreateFile, "/w/shared.bin"), wrReq(patBytes(9, 0, 1500)), mkReq(opCreateFile, "/w")}}},
		// a client that connects when another one has just finished (its teardown may still be running): per-connection
		// state recycled from the finished connection must not be touched by that teardown any more
		{name: "reconnect-during-teardown", after: map[int]int{1: 0}, clients: [][]Req{
			{mkReq(opOpenFile, "/plain/f131073.bin"), rdcReq(0, 70000), mkReq(opOpenDir, "/d"), noargReq(opReadDirEntry)},
			{mkReq(opOpenFile, "/plain/f65536.bin"), rdReq(0, 100), mkReq(opOpenDir, "/k3"), noargReq(opReadDirEntry), rdcReq(100, 1000), cdReq(0, 1)}}},
		// one client's refused requests (virtual paths cannot be written, existing directory, missing parent) must not
		// change what another client is allowed to do
		{name: "uploader-vs-refused-mutations", allow: true, reset: resetW, files: map[string][]byte{"w/a.bin": pa[:3000], "w/c.bin": []byte("second")}, clients: [][]Req{
			{mkReq(opCreateFile, "/w/a.bin"), wrReq(pa[:3000]), mkReq(opMkdir, "/w/sub"), mkReq(opCreateFile, "/w/c.bin"), wrReq([]byte("second")), mkReq(opRmdir, "/w/sub")},
			{mkReq(opCreateFile, "/***DVD***/game/x.bin"), mkReq(opMkdir, "/***PS3***/game/y"), mkReq(opCreateFile, "/nodir/z"), mkReq(opDeleteFile, "/***DVD***/game"), mkReq(opMkdir, "/plain"), mkReq(opStatFile, "/plain")}}},
		// a client that stays connected and idle after its requests: everybody else is served all the same
		{name: "idle-neighbour", hold: map[int]bool{0: true}, clients: [][]Req{
			{mkReq(opOpenFile, "/plain/f65536.bin"), rdReq(0, 100)},
			{mkReq(opOpenFile, "/plain/f65537.bin"), rdcReq(1, 1000), mkReq(opStatFile, "/plain")},
			{mkReq(opOpenDir, "/d"), noargReq(opReadDir)}}},
		{name: "churn", maxB: 2, clients: [][]Req{
			{mkReq(opOpenFile, "/plain/f131073.bin"), rdcReq(0, 131073)},
			{mkReq(opOpenFile, "/plain/f65536.bin"), rdcReq(0, 65536)},
			{mkReq(opOpenFile, "/plain/f65537.bin"), rdcReq(1, 65536), rdReq(0, 10)}}},
	}
	bound := 2
	if r.Thorough() {
		bound = 3
	}
	r.Extra("preemption_bound", sprintf("%d (three-client scenarios: 2)", bound))
	if r.Shard == 0 {
		// first, so that it reports whatever happens to the exploration below
		runRaceAdjunct(r, "C12")
	}
	for _, sc := range scs {
		if !c12Explore(t, r, w.Root, sc, bound, "C12") {
			return
		}
	}
	r.Sample(map[string]any{"scenario": scs[0].name, "clients": scs[0].clients})
	r.Assume("scheduling points at connection, accept and leaf filesystem operations are sufficient provided unsynchronised accesses are caught separately: the free-running -race adjunct (sampling, reported under 'race_adjunct') covers those and is not the deciding step")
}

// c12Explore explores every schedule of one scenario up to the preemption bound and judges each execution;
// returns false after a harness error.
func c12Explore(t *testing.T, r *Reporter, root string, sc c12Scenario, bound int, prop string) bool {
	// solo baselines (run twice: must be deterministic)
	var solo [][]byte
	for i := range sc.clients {
		a := c12Exec(t, root, sc, i, nil)
		b := c12Exec(t, root, sc, i, nil)
		if !bytes.Equal(a.streams[i], b.streams[i]) {
			r.HarnessError(sprintf("scenario %s client %d: solo run is not deterministic", sc.name, i))
			return false
		}
		solo = append(solo, a.streams[i])
	}
	// determinism: the default schedule replayed twice gives identical points
	d1 := c12Exec(t, root, sc, -1, nil)
	d2 := c12Exec(t, root, sc, -1, choicesOf(d1.points))
	if len(d1.points) != len(d2.points) {
		r.HarnessError(sprintf("scenario %s: replaying the default schedule gave %d points instead of %d", sc.name, len(d2.points), len(d1.points)))
		return false
	}
	for i := range d1.points {
		if d1.points[i].Actor != d2.points[i].Actor || d1.points[i].Op != d2.points[i].Op {
			r.HarnessError(sprintf("scenario %s: replay divergence at point %d", sc.name, i))
			return false
		}
	}
	if r.Shard == 0 {
		r.Extra("points_default_"+sc.name, len(d1.points))
	}
	run := func(prefix []int) []schedPoint {
		o := c12Exec(t, root, sc, -1, prefix)
		r.Transition(int64(len(o.points)))
		r.Eval(1)
		key := sprintf("%s|%v", sc.name, choicesOf(o.points))
		r.State(key)
		if preemptionsBefore(o.points, len(o.points)) > 0 {
			r.Nontrivial(key)
		}
		r.Outcome(sc.name + ":" + o.order)
		rep := map[string]any{"scenario": sc.name, "choices": choicesOf(o.points), "points": len(o.points)}
		viol := func(sig, msg string) {
			// re-run 5 times from the choice sequence before believing it
			for k := 0; k < 5; k++ {
				again := c12Exec(t, root, sc, -1, choicesOf(o.points))
				same := len(again.streams) == len(o.streams)
				var ci int
				if n, _ := fmt.Sscanf(sig, "stream-differs-from-solo:client%d", &ci); n == 1 && same && ci < len(solo) {
					// a stream that is wrong because of memory shared with work that outlived its connection need not be
					// wrong in the same bytes twice; the schedule reproduces the violation if that client's stream
					// differs from its solo stream again
					same = !bytes.Equal(again.streams[ci], solo[ci])
				} else {
					for i := range o.streams {
						if same && !bytes.Equal(again.streams[i], o.streams[i]) {
							same = false
						}
					}
				}
				if !same || again.diverge != "" {
					r.HarnessError(sprintf("scenario %s: violation %q does not reproduce from its choice sequence (%s)", sc.name, sig, again.diverge))
					return
				}
			}
			r.Violation(prop+":"+sc.name+":"+sig, sprintf("scenario %s, schedule with %d preemption(s) %v: %s", sc.name, preemptionsBefore(o.points, len(o.points)), compactChoices(o.points), msg), rep)
		}
		if o.diverge != "" {
			r.HarnessError("scenario " + sc.name + ": " + o.diverge)
			return o.points
		}
		if o.aborted != "" {
			viol("livelock", "execution exceeded the horizon of scheduling points")
		}
		for i := range sc.clients {
			if sc.framing[i] {
				why := c12Framing(sc.clients[i], o.streams[i])
				if strings.HasPrefix(why, "stream ends inside") && strings.Contains(why, "(read data") && o.unread[i] > 0 {
					// the file shrank between the announcement and the transfer and the server ended the connection
					// there, leaving the following requests unread: a correct prefix followed by disconnection - the
					// client knows, nothing is out of step (going on after a short transfer would be)
					r.Outcome(sc.name + ":reader-disconnected-mid-read")
					continue
				}
				if why != "" {
					viol(sprintf("framing-lost:client%d", i), sprintf("client %d (its file is rewritten by another client meanwhile): %s", i, why))
					break
				}
				continue
			}
			if len(sc.hold) > 0 && !sc.hold[i] && !bytes.Equal(o.early[i], solo[i]) {
				viol(sprintf("starved-by-idle-neighbour:client%d", i), sprintf("while client(s) %v stay connected and idle, client %d has received %d of its %d response bytes and nothing can make progress any more", keysOf(sc.hold), i, len(o.early[i]), len(solo[i])))
				break
			}
			if !bytes.Equal(o.streams[i], solo[i]) {
				viol(sprintf("stream-differs-from-solo:client%d", i), sprintf("client %d received a different response stream than when run alone: %s", i, describeDiff(o.streams[i], solo[i])))
				break
			}
			if !o.closed[i] {
				viol("not-closed", sprintf("client %d's connection was not closed", i))
			}
		}
		if len(o.leaked) > 0 {
			viol("handle-leak", sprintf("handles left open: %v", o.leaked))
		}
		for rel, want := range sc.files {
			got, err := os.ReadFile(filepath.Join(root, rel))
			if err != nil || !bytes.Equal(got, want) {
				viol("upload-content:"+rel, sprintf("uploaded file %s differs from its payload (%v)", rel, err))
			}
		}
		return o.points
	}
	if sc.maxB > 0 && bound > sc.maxB {
		bound = sc.maxB
	}
	execs, complete := exploreSchedules(bound, r.Shard, r.NShards, run, r.TimeUp)
	r.ExtraAdd("executions_"+sc.name, int64(execs))
	if !complete {
		r.NotExhaustive("schedule exploration of " + sc.name + " stopped at the internal deadline")
	}
	return true
}

func compactChoices(points []schedPoint) []string {
	var out []string
	for i, p := range points {
		if p.Chosen != 0 {
			out = append(out, sprintf("@%d:%s->actor%d", i, p.Op, p.Actor))
		}
	}
	return out
}

// c12Framing parses a response stream against its request script: every response must have the layout and the
// self-announced length the protocol defines, and nothing may be left over. Content is not judged.
func c12Framing(script []Req, stream []byte) string {
	pos := 0
	need := func(n int, what string) string {
		if pos+n > len(stream) {
			return sprintf("stream ends inside %s (have %d of %d bytes at offset %d)", what, len(stream)-pos, n, pos)
		}
		pos += n
		return ""
	}
	for i, rq := range script {
		switch rq.Op {
		case opOpenFile:
			if w := need(szOpenFile, sprintf("response %d (open-file)", i)); w != "" {
				return w
			}
		case opStatFile:
			if w := need(szStat, sprintf("response %d (stat)", i)); w != "" {
				return w
			}
			if st := stream[pos-szStat : pos]; st[32] > 1 || int64(be64(st)) < -1 {
				return sprintf("response %d is not a stat answer: %s (the stream is out of step)", i, hexHead(st))
			}
		case opReadFile:
			if w := need(4, sprintf("response %d (read length)", i)); w != "" {
				return w
			}
			n := int(int32(be32(stream[pos-4:])))
			if n < 0 || n > int(rq.Limit) {
				return sprintf("response %d announces %d bytes for a read of at most %d", i, n, rq.Limit)
			}
			if w := need(n, sprintf("response %d (read data, %d announced)", i, n)); w != "" {
				return w
			}
		default:
			return ""
		}
	}
	if pos != len(stream) {
		return sprintf("%d stray bytes after the last response", len(stream)-pos)
	}
	return ""
}

func keysOf(m map[int]bool) []int {
	var out []int
	for k := range m {
		out = append(out, k)
	}
	sort.Ints(out)
	return out
}
