#!/bin/bash
# Offline setup: pre-build the harness (go1.26.8 std + deps into /verif/.cache) and the real binary.
set -e
cd "$(dirname "$0")"
export GOFLAGS=-mod=mod GOPROXY=off GOSUMDB=off GOTOOLCHAIN=local GOCACHE=$PWD/.cache/gocache
mkdir -p .build .cache
python3 - <<'PY'
import sys, importlib.util, importlib.machinery
loader = importlib.machinery.SourceFileLoader("check", "./check")
spec = importlib.util.spec_from_loader("check", loader)
m = importlib.util.module_from_spec(spec); loader.exec_module(m)
ok = m.build(True, True)
sys.exit(0 if ok else 1)
PY
echo setup ok
