package verifh

import (
	"crypto/sha256"
	"encoding/hex"
	"fmt"
	"io"
	"net"
	"os"
	"path/filepath"
	"sort"
	"sync/atomic"
	"syscall"
	"testing"
	"testing/synctest"
	"time"

	"github.com/spf13/afero"

	"github.com/xakep666/ps3netsrv-go/internal/copier"
	"github.com/xakep666/ps3netsrv-go/internal/handler"
	pfs "github.com/xakep666/ps3netsrv-go/pkg/fs"
	"github.com/xakep666/ps3netsrv-go/pkg/server"
)

var worldSeq atomic.Int64

func scratchBase() string {
	if s := os.Getenv("VERIF_SCRATCH"); s != "" {
		return s
	}
	if st, err := os.Stat("/dev/shm"); err == nil && st.IsDir() {
		return "/dev/shm"
	}
	return os.TempDir()
}

// World is a directory tree built by the harness: Dir is the sentinel directory, Root the served root inside it.
type World struct {
	Dir  string
	Root string
}

var baseTime = time.Date(2020, 2, 3, 4, 5, 6, 0, time.UTC)

func newWorld(tb testing.TB, rootRel string) *World {
	d := filepath.Join(scratchBase(), fmt.Sprintf("verifh-%d-%d", os.Getpid(), worldSeq.Add(1)))
	if err := os.MkdirAll(d, 0o755); err != nil {
		tb.Fatal(err)
	}
	w := &World{Dir: d, Root: filepath.Join(d, rootRel)}
	if err := os.MkdirAll(w.Root, 0o755); err != nil {
		tb.Fatal(err)
	}
	return w
}

func (w *World) Cleanup() { os.RemoveAll(w.Dir) }

// pat is the deterministic content function: byte i of a file with the given seed.
func pat(seed byte, i int64) byte {
	return byte(i*7+(i>>11)*13+(i>>8)) ^ seed
}

func patBytes(seed byte, off int64, n int) []byte {
	b := make([]byte, n)
	for k := range b {
		b[k] = pat(seed, off+int64(k))
	}
	return b
}

func must(err error) {
	if err != nil {
		panic("harness: " + err.Error())
	}
}

// MkFileAbs creates a file at an absolute path with pattern content; big files are sparse with pattern windows.
func mkFileAbs(p string, size int64, seed byte, mt time.Time) {
	must(os.MkdirAll(filepath.Dir(p), 0o755))
	f, err := os.OpenFile(p, os.O_CREATE|os.O_TRUNC|os.O_WRONLY, 0o644)
	must(err)
	if size <= 4<<20 {
		_, err = f.Write(patBytes(seed, 0, int(size)))
		must(err)
	} else {
		must(f.Truncate(size))
		// windows around interesting places
		wins := []int64{0, size - 8192}
		for _, b := range []int64{0xFFFFF800, 0x100000000, 2 * 0xFFFFF800, 0x200000000} {
			if b < size {
				wins = append(wins, b-8192)
			}
		}
		for _, o := range wins {
			if o < 0 {
				o = 0
			}
			n := int64(16384)
			if o+n > size {
				n = size - o
			}
			_, err = f.WriteAt(patBytes(seed, o, int(n)), o)
			must(err)
		}
	}
	must(f.Close())
	must(os.Chtimes(p, mt, mt))
}

func writeFileAbs(p string, data []byte, mt time.Time) {
	must(os.MkdirAll(filepath.Dir(p), 0o755))
	must(os.WriteFile(p, data, 0o644))
	must(os.Chtimes(p, mt, mt))
}

func (w *World) File(rel string, size int64, seed byte) string {
	p := filepath.Join(w.Root, rel)
	mkFileAbs(p, size, seed, baseTime.Add(time.Duration(seed)*time.Hour+time.Duration(size%1000)*time.Second))
	return p
}

func (w *World) Data(rel string, data []byte) string {
	p := filepath.Join(w.Root, rel)
	writeFileAbs(p, data, baseTime.Add(time.Duration(len(data)%977)*time.Minute))
	return p
}

func (w *World) MkDir(rel string) string {
	p := filepath.Join(w.Root, rel)
	must(os.MkdirAll(p, 0o755))
	return p
}

// FixDirTimes gives every directory under Dir a fixed mtime (after all children were created).
func (w *World) FixDirTimes() {
	var dirs []string
	filepath.Walk(w.Dir, func(p string, fi os.FileInfo, err error) error {
		if err == nil && fi.IsDir() {
			dirs = append(dirs, p)
		}
		return nil
	})
	sort.Sort(sort.Reverse(sort.StringSlice(dirs)))
	for i, d := range dirs {
		mt := baseTime.Add(-time.Duration(i+1) * time.Hour)
		os.Chtimes(d, mt, mt)
	}
}

// Snapshot returns a canonical description of the tree under dir (names, kinds, sizes, mtimes, content hashes),
// optionally skipping one subtree.
func snapshotTree(dir, skip string) map[string]string {
	out := map[string]string{}
	filepath.Walk(dir, func(p string, fi os.FileInfo, err error) error {
		if err != nil {
			out[p] = "ERR " + err.Error()
			return nil
		}
		if skip != "" && p == skip {
			out[p] = "SKIPPED"
			return filepath.SkipDir
		}
		rel, _ := filepath.Rel(dir, p)
		switch {
		case fi.Mode()&os.ModeSymlink != 0:
			t, _ := os.Readlink(p)
			out[rel] = "L " + t
		case fi.IsDir():
			out[rel] = fmt.Sprintf("D %d", fi.ModTime().Unix())
		default:
			h := sha256.New()
			if fi.Size() <= 8<<20 {
				if f, err := os.Open(p); err == nil {
					io.Copy(h, f)
					f.Close()
				}
			}
			out[rel] = fmt.Sprintf("F %d %d %s", fi.Size(), fi.ModTime().Unix(), hex.EncodeToString(h.Sum(nil)[:8]))
		}
		return nil
	})
	return out
}

func diffSnap(a, b map[string]string) string {
	var d []string
	for k, v := range a {
		if bv, ok := b[k]; !ok {
			d = append(d, "removed "+k)
		} else if bv != v {
			d = append(d, fmt.Sprintf("changed %s: %s -> %s", k, v, bv))
		}
	}
	for k := range b {
		if _, ok := a[k]; !ok {
			d = append(d, "added "+k+" = "+b[k])
		}
	}
	sort.Strings(d)
	if len(d) > 6 {
		d = append(d[:6], fmt.Sprintf("... %d more", len(d)-6))
	}
	return fmt.Sprint(d)
}

type statTimes struct{ m, c, a int64 }

func sysTimes(fi os.FileInfo) statTimes {
	st := fi.Sys().(*syscall.Stat_t)
	return statTimes{m: fi.ModTime().Unix(), c: st.Ctim.Sec, a: st.Atim.Sec}
}

// ---------- server wiring (mirrors cmd/ps3netsrv-go/server.go) ----------

type SrvOpts struct {
	Root       string
	AllowWrite bool
	Timeout    time.Duration
	BufSize    int64
	LeafWrap   func(afero.Fs) afero.Fs // wraps the OsFs below BasePathFs
	TopWrap    func(afero.Fs) afero.Fs // wraps fs.FS above (what the handler sees)
	LnWrap     func(net.Listener) net.Listener
}

type Sess struct {
	outer net.Listener // what Serve accepts from (wrappers included)
	ln    *Listener
	done  chan error
	conns []*Conn
	h     *handler.Handler
}

func buildHandler(o SrvOpts) *handler.Handler {
	var leaf afero.Fs = afero.NewOsFs()
	if o.LeafWrap != nil {
		leaf = o.LeafWrap(leaf)
	}
	var top afero.Fs = &pfs.FS{Fs: afero.NewBasePathFs(leaf, o.Root)}
	if o.TopWrap != nil {
		top = o.TopWrap(top)
	}
	bs := o.BufSize
	if bs == 0 {
		bs = 64 << 10
	}
	var cop *copier.Copier
	if bs > 0 {
		cop = copier.NewPooledCopier(bs)
	} else {
		cop = copier.NewCopier()
	}
	return &handler.Handler{Fs: top, AllowWrite: o.AllowWrite, Copier: cop}
}

// startSrv starts the real server.Serve over a vnet listener. Must be called inside a synctest bubble
// (or outside one for free-running use).
func startSrv(o SrvOpts) *Sess {
	h := buildHandler(o)
	if o.Timeout == 0 {
		o.Timeout = 10 * time.Minute
	}
	s := &server.Server[handler.State]{Handler: h, ReadTimeout: o.Timeout, Logger: quietLogger}
	ln := newListener()
	var l net.Listener = ln
	if o.LnWrap != nil {
		l = o.LnWrap(l)
	}
	ss := &Sess{ln: ln, outer: l, done: make(chan error, 1), h: h}
	go func() { ss.done <- s.Serve(l) }()
	return ss
}

// startSrvWith starts Serve with an explicit handler and listener (timeout 0 = none).
func startSrvWith(h *handler.Handler, ln *Listener, timeout time.Duration) *Sess {
	s := &server.Server[handler.State]{Handler: h, ReadTimeout: timeout, Logger: quietLogger}
	ss := &Sess{ln: ln, done: make(chan error, 1), h: h}
	go func() { ss.done <- s.Serve(ln) }()
	return ss
}

func (s *Sess) Dial(remote net.Addr) *Conn {
	c := s.ln.Dial(remote)
	s.conns = append(s.conns, c)
	return c
}

// Exchange sends bytes and returns what the server wrote once everything is quiescent.
func (s *Sess) Exchange(c *Conn, b []byte) (resp []byte, closed bool) {
	c.Send(b)
	synctest.Wait()
	return c.Take(), c.ServerClosed()
}

// Shutdown ends every connection and the accept loop; afterwards no server goroutine may remain.
func (s *Sess) Shutdown() {
	for _, c := range s.conns {
		c.Fin()
	}
	if s.outer != nil {
		s.outer.Close()
	}
	s.ln.Close()
	synctest.Wait()
	// goroutines that are asleep (a retry pause, a timer) count as durably blocked and the bubble's clock stops when
	// the test function returns: give them virtual time to see that their connection is gone
	time.Sleep(time.Second)
	synctest.Wait()
}

func time1(i int) time.Duration { return time.Duration(i+1) * 37 * time.Minute }

// fixDirTimesUnder gives every directory at or below dir a fixed mtime that depends only on its relative path.
func fixDirTimesUnder(dir string) {
	var dirs []string
	filepath.Walk(dir, func(p string, fi os.FileInfo, err error) error {
		if err == nil && fi.IsDir() {
			dirs = append(dirs, p)
		}
		return nil
	})
	sort.Sort(sort.Reverse(sort.StringSlice(dirs)))
	for _, d := range dirs {
		rel, _ := filepath.Rel(dir, d)
		mt := baseTime.Add(-time.Duration(len(rel)+1) * time.Hour)
		os.Chtimes(d, mt, mt)
	}
}
