#!/usr/bin/env python3
"""Regenerates MANIFEST.json from the table below (kept in one place so it is always valid)."""
import json, os, sys
V = os.path.dirname(os.path.abspath(__file__))
CLAIMED = {
 # id: (category, technique, text, note, design_ref)
 "C14": ("model_checking", "bounded-exhaustive enumeration of range specs x probe addresses on the real ParseIPRange/Contains against a netip+big.Int reference",
         "every spec of the documented grammar over 22 base addresses (all prefixes -1..33/-1..129, all 33 masks and their one-bit flips, all ordered pairs, near misses) x border/network/broadcast/midpoint probes in every byte form; thorough adds every address of every block <= 4096 wide",
         "trusts net/netip and math/big; undocumented spellings (+24, 024, mapped-v4 CIDR bases) excluded", "5 C14"),
}
NA = {}
props = [json.loads(l)["id"] for l in open(os.path.join(V, "properties.jsonl"))]
for extra in (os.path.join(V, "manifest_claims.json"),):
    if os.path.exists(extra):
        d = json.load(open(extra))
        for k, v in d.get("claimed", {}).items():
            CLAIMED[k] = tuple(v)
        NA.update(d.get("na", {}))
checks = []
for p in props:
    if p in CLAIMED:
        cat, tech, text, note, ref = CLAIMED[p]
        checks.append(dict(property_id=p, quick_cmd="./check %s --tier quick" % p, thorough_cmd="./check %s --tier thorough" % p,
                           evidence_file="evidence/%s.json" % p, replay_cmd_template="./check %s --replay {path}" % p,
                           engine="verifh", level_claimed=dict(category=cat, text=text, design_ref="DESIGN.md §" + ref),
                           level_note=note, technique=tech))
na = [dict(property_id=p, reason=NA.get(p, "check not built yet in this session (planned, see DESIGN.md §5)")) for p in props if p not in CLAIMED]
m = dict(version=1,
         setup_cmd="./setup.sh",
         hooks=dict(guard="verif", enable="none needed: the harness is compiled into /repo's module as a virtual package via `go test -c -overlay` (see ./check build()); no source hooks exist",
                    baseline_off_cmd="cd /repo && GOFLAGS=-mod=mod GOPROXY=off GOSUMDB=off GOTOOLCHAIN=local go test -vet=off -count=1 ./pkg/... ./internal/...",
                    source_commits=[], add_only=True),
         engines=[dict(name="verifh", path="harness/", serves_properties=sorted(CLAIMED),
                       kind_free_text="hand-written explorer: deterministic in-memory network + instrumented filesystem + virtual clock (testing/synctest), exhaustive enumeration of request sequences / environment deviations / schedules on the real code, with reference models in Go")],
         checks=checks, not_applicable=na,
         notes="All checks run the real implementation; see DESIGN.md. KNOWN_FINDINGS.txt lists recorded findings and fixed defects.")
json.dump(m, open(os.path.join(V, "MANIFEST.json"), "w"), indent=1)
print("claimed:", len(checks), "not_applicable:", len(na))
