package verifh

import (
	"bytes"
	"encoding/hex"
	"os"
	"path/filepath"
	"strings"
	"testing"

	"github.com/spf13/afero"
)

// C01: root confinement. No request reaches outside the served root; no response depends on what exists outside.

type c01World struct {
	w        *World
	rootSnap map[string]string
}

func c01BuildRoot(w *World) {
	des, _ := os.ReadDir(w.Root) // empty the root without touching its parent directory
	for _, de := range des {
		os.RemoveAll(filepath.Join(w.Root, de.Name()))
	}
	w.File("a.txt", 100, 1)
	w.File("sub/inner.txt", 50, 2)
	w.MkDir("w")
	disk, _ := mkRedumpImage(6, []uint32{0, 2, 4, 5}, c10Keys[2], 5)
	w.Data("PS3ISO/g.iso", disk)
	w.File("g.iso", 4096, 6)
	// encrypted images whose own disc-information sector (sector 1: console id, then a 32-byte product id) spells a path:
	// nothing in an image's content may steer the key lookup out of the root
	for i, pid := range c01ProductIDs {
		plain := patBytes(byte(20+i), 0, 6*2048)
		copy(plain, regionTable([]uint32{0, 2, 4, 5}))
		copy(plain[0x800:], "PlayStation3\x00\x00\x00\x00")
		copy(plain[0x810:], append([]byte(pid), bytes.Repeat([]byte{' '}, 32)...)[:32])
		w.Data(sprintf("PS3ISO/p%d.iso", i), buildEncImage(plain, []uint32{0, 2, 4, 5}, c10Keys[2]))
	}
	fixDirTimesUnder(w.Root)
}

var c01ProductIDs = []string{"../../root-other/k", "../root-other/k", "../k", "../../k", "/../root-other/k", "k/../../../root-other/k", "..\\..\\root-other\\k", "BLES-01234/../../../rootx/k"}

func buildC01World(t testing.TB, withOutside bool) *c01World {
	w := newWorld(t, "srv/root")
	if withOutside {
		d := w.Dir
		mkFileAbs(filepath.Join(d, "srv", "root-other", "secret.txt"), 33, 7, baseTime)
		mkFileAbs(filepath.Join(d, "srv", "root-other", "sub", "inner.txt"), 34, 7, baseTime)
		mkFileAbs(filepath.Join(d, "srv", "rootx", "secret.txt"), 35, 7, baseTime)
		mkFileAbs(filepath.Join(d, "srv", "secret.txt"), 36, 7, baseTime)
		mkFileAbs(filepath.Join(d, "srv", "a.txt"), 37, 7, baseTime)
		mkFileAbs(filepath.Join(d, "srv", "g.iso"), 4096, 8, baseTime)
		mkFileAbs(filepath.Join(d, "srv", "sub", "inner.txt"), 38, 7, baseTime)
		mkFileAbs(filepath.Join(d, "out", "secret.txt"), 39, 7, baseTime)
		mkFileAbs(filepath.Join(d, "secret.txt"), 40, 7, baseTime)
		must(os.MkdirAll(filepath.Join(d, "srv", "w"), 0o755))
		// key files outside the root that the implicit key lookup must never find
		writeFileAbs(filepath.Join(d, "srv", "REDKEY", "g.dkey"), []byte(hex.EncodeToString(c10Keys[2])), baseTime)
		writeFileAbs(filepath.Join(d, "srv", "PS3ISO", "g.dkey"), []byte(hex.EncodeToString(c10Keys[2])), baseTime)
		disk, _ := mkRedumpImage(6, []uint32{0, 2, 4, 5}, c10Keys[2], 5)
		writeFileAbs(filepath.Join(d, "srv", "PS3ISO", "g.iso"), disk, baseTime)
		writeFileAbs(filepath.Join(d, "REDKEY", "g.dkey"), []byte(hex.EncodeToString(c10Keys[2])), baseTime)
		writeFileAbs(filepath.Join(d, "srv", "root", "..", "root.dkey"), []byte(hex.EncodeToString(c10Keys[2])), baseTime)
		for _, kp := range []string{"srv/root-other/k.dkey", "srv/rootx/k.dkey", "srv/k.dkey", "srv/REDKEY/k.dkey", "k.dkey", "REDKEY/k.dkey", "srv/root-other/k"} {
			writeFileAbs(filepath.Join(d, kp), []byte(hex.EncodeToString(c10Keys[2])), baseTime)
		}
	}
	c01BuildRoot(w)
	return &c01World{w: w, rootSnap: snapshotTree(w.Root, "")}
}

func (cw *c01World) resetIfChanged() {
	if d := diffSnap(cw.rootSnap, snapshotTree(cw.w.Root, "")); d != "[]" {
		c01BuildRoot(cw.w)
		cw.rootSnap = snapshotTree(cw.w.Root, "")
	}
}

var c01Segments = []string{"", ".", "..", "sub", "root-other", "root", "out", "***DVD***", "***PS3***", "PS3ISO", "g.iso", "secret.txt", "CLOSEFILE", "%2e%2e"}

func c01Paths(maxSeg int) []string {
	var out []string
	var rec func(prefix []string, depth int)
	rec = func(prefix []string, depth int) {
		if depth > 0 {
			j := strings.Join(prefix, "/")
			out = append(out, "/"+j, j)
		}
		if depth == maxSeg {
			return
		}
		for _, s := range c01Segments {
			rec(append(prefix, s), depth+1)
		}
	}
	rec(nil, 0)
	out = append(out,
		"/a.txt\x00/../../secret.txt", "/../secret.txt\x00", strings.Repeat("../", 300)+"secret.txt", "/"+strings.Repeat("../", 300)+"srv/secret.txt",
		"/"+strings.Repeat("x", 65534), strings.Repeat("../", 21844)+"x", "/sub/../../root-other/secret.txt", "//..//secret.txt", "/..\\secret.txt", "\\..\\secret.txt",
		"/sub/../../../out/secret.txt", "/***DVD***/../../root-other", "/***PS3***/../..", "/***DVD***/..", "/PS3ISO/../../PS3ISO/g.iso", "/../PS3ISO/g.iso", "../PS3ISO/g.iso",
		"/***DVD***/..%2froot-other", "/***DVD***/%2e%2e%2froot-other", "/***PS3***/sub/%2e%2e/%2e%2e/root-other", "/%2e%2e/root-other/secret.txt", "/..%2f..%2fsecret.txt", "/***DVD***/..%5croot-other", "/***DVD***/%2E%2E/root-other/",
		"/w/../../w/x", "/./../root-other/./secret.txt", "/root-other/../../root-other/secret.txt", "/..", "..", "/../", "/../root", "/../root/a.txt", "/../rootx/secret.txt")
	// long paths (the protocol allows 65535 bytes): harmless padding in front of, between and behind '..' elements, so
	// that a length threshold anywhere in the clamp (PATH_MAX, a fixed buffer, a 16-bit length) is crossed
	for _, total := range []int{255, 256, 1023, 1025, 4090, 4096, 4097, 4200, 8192, 32767, 32769, 65000, 65535} {
		for _, pad := range []string{"./", "x/../", "//"} {
			for _, tail := range []string{"../root-other/secret.txt", "../rootx/secret.txt", "../../out/secret.txt", "sub/../../root-other/sub"} {
				n := (total - 1 - len(tail)) / len(pad)
				if n < 0 {
					continue
				}
				out = append(out, "/"+strings.Repeat(pad, n)+tail)
			}
		}
		// the '..' first, the padding behind it
		n := (total - len("/../root-other/") - len("secret.txt")) / 2
		if n >= 0 {
			out = append(out, "/../root-other/"+strings.Repeat("./", n)+"secret.txt")
		}
	}
	// '..' elements decorated with one byte that a later clean-up stage (log sanitising, trimming, charset
	// conversion) might drop after the clamp has run: as sent they are ordinary (non-existent) names under the root
	for _, c := range []string{"\x01", "\t", "\n", "\r", "\x1b", "\x7f", " ", "\x80", "\xff", "\u200b", "\ufeff"} {
		for _, dd := range []string{c + "..", "." + c + ".", ".." + c} {
			out = append(out, "/"+dd+"/root-other/secret.txt", dd+"/rootx/secret.txt", "/sub/"+dd+"/"+dd+"/root-other/sub", "/"+dd+"/"+dd+"/out/secret.txt", "/***DVD***/"+dd+"/"+dd+"/root-other")
		}
	}
	// characters that a Unicode compatibility form, a width folding or a lenient UTF-8 decoder turns into '.', '/' or
	// '\\' after the clamp has run: as sent they are ordinary (non-existent) names under the root
	for _, dd := range []string{"\u2025", "\uff0e\uff0e", "\ufe52\ufe52", "\u2024\u2024", ".\uff0e", "\uff0e.", "\xc0\xae\xc0\xae", "\xe0\x80\xae\xe0\x80\xae", "\u2026"} {
		for _, sep := range []string{"/", "\uff0f", "\u2215", "\u2044", "\uff3c", "\xc0\xaf"} {
			out = append(out, "/"+dd+sep+"root-other"+sep+"secret.txt", "/"+dd+sep+"rootx"+sep+"secret.txt", dd+sep+"rootx"+sep+"secret.txt",
				"/sub/"+dd+sep+dd+sep+"root-other"+sep+"sub", "/"+dd+sep+dd+sep+"out"+sep+"secret.txt", "/***DVD***/"+dd+sep+"rootx", "/***PS3***/"+dd+sep+"root-other",
				"/"+dd+sep+"PS3ISO"+sep+"g.iso", "/w/"+dd+sep+dd+sep+"w"+sep+"x")
		}
	}
	return out
}

func maskTimes(op uint16, resp []byte) []byte {
	out := append([]byte{}, resp...)
	if op == opStatFile && len(out) == szStat {
		for i := 16; i < 32; i++ {
			out[i] = 0
		}
	}
	return out
}

func failureForm(op uint16, resp []byte) bool {
	switch op {
	case opOpenDir, opCreateFile, opDeleteFile, opMkdir, opRmdir:
		return len(resp) == 4 && int32(be32(resp)) == -1
	case opStatFile:
		return len(resp) == szStat && int64(be64(resp)) == -1
	case opOpenFile:
		return len(resp) == szOpenFile && int64(be64(resp)) == -1
	case opGetDirSize:
		return len(resp) == 8 && (int64(be64(resp)) == -1 || int64(be64(resp)) == 0)
	}
	return false
}

func TestC01(t *testing.T) {
	r := NewReporter(t)
	defer r.Done()
	r.Rule("path strings = optional leading '/' x all sequences of <= N segments from {'', '.', '..', sub, <root>-other, <root>, out, ***DVD***, ***PS3***, PS3ISO, g.iso, secret.txt, CLOSEFILE} + specials (NUL, 65534-byte path, 300-deep ../, backslashes, '..' decorated with control/space/invalid bytes, paths padded with './', 'x/../', '//' to 255..65535 bytes) x 8 path-carrying opcodes x writing on/off x root spelling (incl. root directories named with trailing dots / spaces next to a sibling without them, and roots kept below directories named PS3ISO / REDKEY / like the virtual-image prefixes with key files all around) x preceding request; short escaping paths also delivered in pieces (1, 7, 17 bytes, cut in the middle and one byte before the end); oracles: (O1) every leaf filesystem operation stays under the root, (O2) sentinel tree outside the root unchanged, (O3) byte-identical responses against a twin world whose outside is empty, (O4) response = model answer for the clamped path or the failure form; the process runs in a working directory full of bait and an encrypted image whose only key files lie outside the root must be served as stored, also images whose own disc-information sector spells a path towards those key files (8 spellings); distinct by (path, mode, spelling, preceding request)")
	A := buildC01World(t, true)
	B := buildC01World(t, false)
	defer A.w.Cleanup()
	defer B.w.Cleanup()
	outsideSnap := snapshotTree(A.w.Dir, A.w.Root)
	// the process's working directory is a place full of bait (REDKEY/g.dkey, PS3ISO/g.dkey, g.iso, a.txt ...): anything
	// the server resolves relative to where it was started instead of relative to the root finds something there
	if cwd, err := os.Getwd(); err == nil {
		must(os.Chdir(filepath.Join(A.w.Dir, "srv")))
		defer os.Chdir(cwd)
	}
	// the implicit key lookup: /PS3ISO/g.iso is an encrypted image with no key file inside the root (keys lie outside,
	// beside the root and in the working directory) - it must be served as stored, under every spelling of its path
	keyLookup := []string{"/PS3ISO/g.iso", "PS3ISO/g.iso", "/sub/../PS3ISO/g.iso", "/PS3ISO/../PS3ISO/g.iso", "/../root/PS3ISO/g.iso", "//PS3ISO//g.iso"}
	for i := range c01ProductIDs {
		keyLookup = append(keyLookup, sprintf("/PS3ISO/p%d.iso", i))
	}
	for ki, p := range keyLookup {
		if !r.Mine(ki) {
			continue
		}
		reqs := []Req{mkReq(opOpenFile, p), rdcReq(0, 6*2048), rdReq(2048*3+5, 100), mkReq(opStatFile, p)}
		m := newModel(A.w.Root, false)
		res := runSession(t, SrvOpts{Root: A.w.Root}, m, reqs, Delivery{})
		r.Transition(int64(len(res.Steps)))
		r.Eval(1)
		key := sprintf("key-lookup|%q", p)
		r.State(key)
		r.Nontrivial(key)
		if res.Why != "" {
			r.Outcome("key-lookup-outside")
			r.Violation("C01:key-lookup:"+res.WhySig, sprintf("encrypted image without a key file inside the root, opened as %q: %s (a key file outside the root was used?)", p, res.Why), map[string]any{"path": p, "steps": res.Steps})
		} else {
			r.Outcome("key-lookup-stays-inside")
		}
	}
	maxSeg := 3
	spellings := []string{""}
	prevs := [][]Req{nil, {mkReq(opOpenDir, "/")}}
	if r.Thorough() {
		maxSeg = 4
		spellings = []string{"", "/", "/./"}
		prevs = append(prevs, []Req{mkReq(opOpenFile, "/a.txt")}, []Req{mkReq(opCreateFile, "/w/x")})
	}
	paths := c01Paths(maxSeg)
	r.Extra("paths", len(paths))
	ops := []uint16{opStatFile, opOpenFile, opOpenDir, opGetDirSize, opCreateFile, opDeleteFile, opMkdir, opRmdir}
	idx := 0
	for pi, p := range paths {
		for _, allow := range []bool{false, true} {
			for si, sp := range spellings {
				for pvi, prev := range prevs {
					idx++
					if !r.Mine(idx) {
						continue
					}
					if r.Thorough() && maxSeg == 4 && strings.Count(p, "/") >= 4 && (si != 0 || pvi > 1) {
						continue // 4-segment paths: root spellings and extra histories only up to 3 segments
					}
					if idx%256 == 0 && r.TimeUp() {
						break
					}
					if !r.exhaustiveOK() {
						return
					}
					reqs := append([]Req{}, prev...)
					for _, op := range ops {
						reqs = append(reqs, mkReq(op, p))
					}
					leaf := newVFs(afero.NewOsFs(), "leaf")
					mA := newModel(A.w.Root, allow)
					resA := runSession(t, SrvOpts{Root: A.w.Root + sp, AllowWrite: allow, LeafWrap: func(afero.Fs) afero.Fs { return leaf }}, mA, reqs, Delivery{})
					resB := runSession(t, SrvOpts{Root: B.w.Root + sp, AllowWrite: allow}, nil, reqs, Delivery{})
					r.Transition(int64(len(resA.Steps) + len(resB.Steps)))
					r.Eval(1)
					key := sprintf("%q|%v|%d|%d", p, allow, si, pvi)
					r.State(key)
					if strings.Contains(p, "..") || strings.Contains(p, "\x00") {
						r.Nontrivial(key)
					}
					rep := map[string]any{"path": p, "path_hex": hex.EncodeToString([]byte(p[:min(len(p), 200)])), "allow_write": allow, "root_spelling": "<root>" + sp, "preceding": prev, "steps": resA.Steps}
					pshow := p
					if len(pshow) > 100 {
						pshow = pshow[:80] + sprintf("...(%d bytes)", len(p))
					}
					// O1
					for _, e := range leaf.Events() {
						ep := e.Path
						if i := strings.Index(ep, " -> "); i >= 0 {
							ep = ep[:i]
						}
						if ep != A.w.Root && !strings.HasPrefix(ep, A.w.Root+"/") {
							r.Outcome("O1-leaf-op-outside-root")
							r.Violation("C01:leaf-op-outside-root:"+e.Op, sprintf("path %q (allow-write=%v): filesystem operation %s(%q) outside the root %q", pshow, allow, e.Op, e.Path, A.w.Root), rep)
							break
						}
					}
					// O2
					if allow || idx%16 == 0 {
						if d := diffSnap(outsideSnap, snapshotTree(A.w.Dir, A.w.Root)); d != "[]" {
							r.Outcome("O2-outside-changed")
							r.Violation("C01:outside-changed", sprintf("path %q (allow-write=%v) changed objects outside the root: %s", pshow, allow, d), rep)
							A.w.Cleanup()
							A = buildC01World(t, true)
							outsideSnap = snapshotTree(A.w.Dir, A.w.Root)
						}
					}
					// O3
					for i := range resA.Raw {
						if i >= len(resB.Raw) {
							break
						}
						op := reqs[i].Op
						if !bytes.Equal(maskTimes(op, resA.Raw[i]), maskTimes(op, resB.Raw[i])) || resA.Closed[i] != resB.Closed[i] {
							r.Outcome("O3-depends-on-outside")
							r.Violation("C01:response-depends-on-outside:"+opName(op), sprintf("%s(%q) (allow-write=%v): response %s with surroundings present, %s with surroundings absent", opName(op), pshow, allow, hexHead(resA.Raw[i]), hexHead(resB.Raw[i])), rep)
							break
						}
					}
					// O4
					if resA.Why != "" {
						st := resA.FailStep
						if st >= 0 && st < len(resA.Raw) && st >= len(prev) && failureForm(reqs[st].Op, resA.Raw[st]) && !resA.Closed[st] {
							r.Outcome("O4-nonexistent-form")
						} else {
							r.Outcome("O4-model-mismatch")
							r.Violation("C01:"+resA.WhySig, sprintf("path %q (allow-write=%v): %s", pshow, allow, resA.Why), rep)
						}
					} else {
						for _, s := range resA.Steps[len(prev):] {
							r.Outcome(s.Class)
						}
					}
					if allow {
						A.resetIfChanged()
						B.resetIfChanged()
					}
					if pi%997 == 0 && !allow && pvi == 0 {
						r.Sample(map[string]any{"path": pshow, "steps": resA.Steps})
					}
				}
			}
		}
	}
	// ---- requests that arrive in pieces: the command, then the path cut at every kind of place (one byte of it, all
	// but one byte, in the middle of a '..'), and byte by byte; the clamp must not depend on how the stream is cut ----
	{
		var esc []string
		for _, p := range paths {
			if len(p) <= 48 && (strings.Contains(p, "..") || strings.Contains(p, "%2e")) {
				esc = append(esc, p)
			}
		}
		step := 5
		if r.Thorough() {
			step = 1
		}
		for pi := 0; pi < len(esc); pi += step {
			p := esc[pi]
			if !r.Mine(pi / step) {
				continue
			}
			if r.TimeUp() {
				break
			}
			for _, ck := range []int{1, 17, 16 + len(p)/2, 16 + len(p) - 1, 7} {
				if ck < 1 {
					continue
				}
				for _, allow := range []bool{false, true} {
					var reqs []Req
					for _, op := range ops {
						reqs = append(reqs, mkReq(op, p))
					}
					leaf := newVFs(afero.NewOsFs(), "leaf")
					mA := newModel(A.w.Root, allow)
					resA := runSession(t, SrvOpts{Root: A.w.Root, AllowWrite: allow, LeafWrap: func(afero.Fs) afero.Fs { return leaf }}, mA, reqs, Delivery{Chunk: ck})
					r.Transition(int64(len(resA.Steps)))
					r.Eval(1)
					key := sprintf("%q|%v|chunk%d", p, allow, ck)
					r.State(key)
					r.Nontrivial(key)
					rep := map[string]any{"path": p, "allow_write": allow, "delivery_chunk": ck, "steps": resA.Steps}
					for _, e := range leaf.Events() {
						ep := e.Path
						if i := strings.Index(ep, " -> "); i >= 0 {
							ep = ep[:i]
						}
						if ep != A.w.Root && !strings.HasPrefix(ep, A.w.Root+"/") {
							r.Outcome("O1-leaf-op-outside-root")
							r.Violation("C01:split-request:leaf-op-outside-root:"+e.Op, sprintf("path %q delivered in pieces of %d bytes (allow-write=%v): filesystem operation %s(%q) outside the root", p, ck, allow, e.Op, e.Path), rep)
							break
						}
					}
					if resA.Why != "" {
						st := resA.FailStep
						if !(st >= 0 && st < len(resA.Raw) && failureForm(reqs[st].Op, resA.Raw[st]) && !resA.Closed[st]) {
							r.Outcome("O4-model-mismatch")
							r.Violation("C01:split-request:"+resA.WhySig, sprintf("path %q delivered in pieces of %d bytes (allow-write=%v): %s", p, ck, allow, resA.Why), rep)
						}
					}
					if allow {
						if d := diffSnap(outsideSnap, snapshotTree(A.w.Dir, A.w.Root)); d != "[]" {
							r.Violation("C01:split-request:outside-changed", sprintf("path %q delivered in pieces of %d bytes changed objects outside the root: %s", p, ck, d), rep)
							A.w.Cleanup()
							A = buildC01World(t, true)
							outsideSnap = snapshotTree(A.w.Dir, A.w.Root)
						}
						A.resetIfChanged()
					}
				}
			}
		}
	}
	// ---- the real binary with every spelling of the root (abs, relative, trailing slash, default '.', the directory as first argument without a sub-command) ----
	if binPath() != "" {
		binPaths := c01Paths(2)
		if r.Thorough() {
			binPaths = c01Paths(3)
		}
		type spell struct{ name, arg, cwd string }
		sps := []spell{{"absolute", A.w.Root, A.w.Dir}, {"relative", "root", filepath.Join(A.w.Dir, "srv")}, {"trailing-slash", A.w.Root + "/", A.w.Dir}, {"default-dot", "", A.w.Root}, {"dot-slash", "./", A.w.Root},
			{"positional-directory", "positional:" + A.w.Root, A.w.Dir}, {"positional-relative", "positional:srv/root/", A.w.Dir}}
		bi := 0
		for _, sp := range sps {
			for _, allow := range []bool{false, true} {
				bi++
				br, err := startReplayer(sp.arg, sp.cwd, binLogDir("C01"), allow)
				if err != nil {
					r.HarnessError("cannot start the real binary (root spelling " + sp.name + "): " + err.Error())
					return
				}
				// the implicit key lookup on the real process (its working directory holds REDKEY/g.dkey for two spellings)
				if r.Mine(bi) {
					for _, p := range keyLookup[:3] {
						reqs := []Req{mkReq(opOpenFile, p), rdcReq(0, 6*2048), rdReq(2048*3+5, 100)}
						mI := newModel(A.w.Root, allow)
						resI := runSession(t, SrvOpts{Root: A.w.Root, AllowWrite: allow}, mI, reqs, Delivery{})
						if resI.Why != "" {
							continue
						}
						why, sig := br.replay(newModel(A.w.Root, allow), reqs, lensOf(resI.Raw), resI.Closed)
						r.Trace(1)
						if why != "" {
							r.Violation("C01:key-lookup:"+sig+":root-"+sp.name, sprintf("real binary started in %s with root spelling %s: encrypted image without key inside the root opened as %q: %s", sp.cwd, sp.name, p, why), map[string]any{"root_spelling": sp.name, "path": p})
						}
					}
				}
				for pi, p := range binPaths {
					if !r.Mine(pi*16 + bi) {
						continue
					}
					if len(p) > 2000 {
						continue
					}
					var reqs []Req
					for _, op := range ops {
						reqs = append(reqs, mkReq(op, p))
					}
					// in-process run gives the expected response lengths; the model judges the binary's answers
					mI := newModel(A.w.Root, allow)
					resI := runSession(t, SrvOpts{Root: A.w.Root, AllowWrite: allow}, mI, reqs, Delivery{})
					if allow {
						A.resetIfChanged()
					}
					if resI.Why != "" {
						continue // already reported (or tolerated as failure form) by the in-process part
					}
					why, sig := br.replay(newModel(A.w.Root, allow), reqs, lensOf(resI.Raw), resI.Closed)
					r.Trace(1)
					r.Transition(int64(len(reqs)))
					key := sprintf("bin|%s|%v|%q", sp.name, allow, p)
					r.State(key)
					if why != "" {
						r.Violation("C01:"+sig+":root-"+sp.name, sprintf("real binary started with root spelling %s (allow-write=%v), path %q: %s", sp.name, allow, p, why), map[string]any{"root_spelling": sp.name, "path": p, "allow_write": allow})
					}
					if d := diffSnap(outsideSnap, snapshotTree(A.w.Dir, A.w.Root)); d != "[]" {
						r.Violation("C01:outside-changed:root-"+sp.name, sprintf("real binary (root spelling %s, allow-write=%v), path %q changed objects outside the root: %s", sp.name, allow, p, d), map[string]any{"root_spelling": sp.name, "path": p})
						br.Stop()
						r.NotExhaustive("binary part of C01 stopped after the outside of the root was changed")
						return
					}
					if allow {
						A.resetIfChanged()
					}
				}
				br.Stop()
			}
		}
		// root directories whose own name ends in dots, spaces or carries a trailing slash-dot, next to a sibling named
		// like the root without that ending: any "normalisation" of the configured root that eats part of the name
		// lands in the sibling. Judged by plain observation: the marker inside the root is served, the sibling's is not.
		odd := filepath.Join(A.w.Dir, "oddroots")
		for ni, rootName := range []string{"games.", "games..", "games ", "games.iso.", ".games.", "ga.mes"} {
			if !r.Mine(9000 + ni) {
				continue
			}
			os.RemoveAll(odd)
			root := filepath.Join(odd, rootName)
			writeFileAbs(filepath.Join(root, "inside.txt"), []byte("inside the root"), baseTime)
			for _, sib := range []string{strings.TrimRight(rootName, ". "), strings.Trim(rootName, ". "), strings.TrimRight(rootName, ".")} {
				if sib != rootName && sib != "" {
					writeFileAbs(filepath.Join(odd, sib, "secret.txt"), []byte("sibling"), baseTime)
					writeFileAbs(filepath.Join(odd, sib, "inside.txt"), []byte("sibling's file of the same name!"), baseTime)
				}
			}
			snap := snapshotTree(odd, root)
			for _, sp := range []spell{{"abs", root, odd}, {"abs/", root + "/", odd}, {"abs/.", root + "/.", odd}, {"rel", rootName, odd}, {"./rel/", "./" + rootName + "/", odd}} {
				for _, allow := range []bool{false, true} {
					br, err := startReplayer(sp.arg, sp.cwd, binLogDir("C01"), allow)
					key := sprintf("bin|odd-root %q as %s|%v", rootName, sp.name, allow)
					r.State(key)
					r.Nontrivial(key)
					if err != nil {
						r.Violation("C01:odd-root:start-failed", sprintf("root directory named %q given as %q: the server does not start: %v", rootName, sp.arg, err), map[string]any{"root_name": rootName, "spelling": sp.name})
						continue
					}
					reqs := []Req{mkReq(opStatFile, "/inside.txt"), mkReq(opStatFile, "/secret.txt"), mkReq(opOpenFile, "/inside.txt"), rdReq(0, 100), mkReq(opOpenDir, "/"), noargReq(opReadDir),
						mkReq(opCreateFile, "/new.txt"), wrReq([]byte("xyz")), mkReq(opMkdir, "/newdir"), mkReq(opDeleteFile, "/secret.txt")}
					mI := newModel(root, allow)
					resI := runSession(t, SrvOpts{Root: root, AllowWrite: allow}, mI, reqs, Delivery{})
					os.Remove(filepath.Join(root, "new.txt"))
					os.Remove(filepath.Join(root, "newdir"))
					why, sig := br.replay(newModel(root, allow), reqs, lensOf(resI.Raw), resI.Closed)
					r.Trace(1)
					r.Transition(int64(len(reqs)))
					if resI.Why != "" {
						why, sig = "in-process: "+resI.Why, resI.WhySig
					}
					if why != "" {
						r.Violation("C01:odd-root:"+sig, sprintf("root directory named %q given as %q (allow-write=%v): %s", rootName, sp.arg, allow, why), map[string]any{"root_name": rootName, "spelling": sp.name, "allow_write": allow})
					}
					if d := diffSnap(snap, snapshotTree(odd, root)); d != "[]" {
						r.Violation("C01:odd-root:outside-changed", sprintf("root directory named %q given as %q (allow-write=%v): objects outside the root changed: %s", rootName, sp.arg, allow, d), map[string]any{"root_name": rootName, "spelling": sp.name})
					}
					br.Stop()
					os.Remove(filepath.Join(root, "new.txt"))
					os.Remove(filepath.Join(root, "newdir"))
				}
			}
		}
		os.RemoveAll(odd)
		// roots located below directories whose names mean something to the server's own path logic (PS3ISO, REDKEY,
		// the virtual-image prefixes): that logic applies to what the client asked for, never to where the operator
		// keeps the root. The only key files for the encrypted image lie outside the root, where such a rule would look.
		locs := filepath.Join(A.w.Dir, "locations")
		for li, above := range []string{"PS3ISO", "ps3iso", "REDKEY", "***DVD***", "***PS3***", "PS3ISO/PS3ISO", "x/PS3ISO/y"} {
			if !r.Mine(9100 + li) {
				continue
			}
			os.RemoveAll(locs)
			root := filepath.Join(locs, filepath.FromSlash(above), "library")
			disk, _ := mkRedumpImage(6, []uint32{0, 2, 4, 5}, c10Keys[2], 5)
			writeFileAbs(filepath.Join(root, "game.iso"), disk, baseTime)
			writeFileAbs(filepath.Join(root, "sub", "game.iso"), disk, baseTime)
			writeFileAbs(filepath.Join(root, "inside.txt"), []byte("inside the root"), baseTime)
			keyText := []byte(hex.EncodeToString(c10Keys[2]))
			filepath.Walk(locs, func(p string, fi os.FileInfo, err error) error { // a key file of every plausible name in every directory at or above the root's parent
				if err == nil && fi.IsDir() && !strings.HasPrefix(p, root) {
					for _, rel := range []string{"game.dkey", "library.dkey", "REDKEY/game.dkey", "REDKEY/library/game.dkey", "REDKEY/library/sub/game.dkey", "REDKEY/sub/game.dkey", "library/game.dkey"} {
						if kp := filepath.Join(p, rel); !strings.HasPrefix(kp, root+"/") {
							writeFileAbs(kp, keyText, baseTime)
						}
					}
				}
				return nil
			})
			for _, allow := range []bool{false, true} {
				br, err := startReplayer(root, locs, binLogDir("C01"), allow)
				key := sprintf("bin|root below %q|%v", above, allow)
				r.State(key)
				r.Nontrivial(key)
				if err != nil {
					r.Violation("C01:root-location:start-failed", sprintf("root %q: the server does not start: %v", root, err), map[string]any{"above": above})
					continue
				}
				for _, reqs := range [][]Req{
					{mkReq(opOpenFile, "/game.iso"), rdcReq(0, 6*2048), rdReq(2048*3+5, 100), mkReq(opStatFile, "/inside.txt")},
					{mkReq(opOpenFile, "/sub/game.iso"), rdcReq(2048*2, 2048*2), mkReq(opOpenDir, "/"), noargReq(opReadDir)},
					{mkReq(opStatFile, "/../game.dkey"), mkReq(opOpenFile, "/../REDKEY/library/game.dkey"), mkReq(opOpenDir, "/.."), noargReq(opReadDir)},
				} {
					mI := newModel(root, allow)
					resI := runSession(t, SrvOpts{Root: root, AllowWrite: allow}, mI, reqs, Delivery{})
					why, sig := br.replay(newModel(root, allow), reqs, lensOf(resI.Raw), resI.Closed)
					r.Trace(1)
					r.Transition(int64(len(reqs)))
					if resI.Why != "" {
						why, sig = "in-process: "+resI.Why, resI.WhySig
					}
					if why != "" {
						r.Violation("C01:root-location:"+sig, sprintf("root kept below a directory named %q (allow-write=%v), encrypted image whose only key files lie outside the root: %s", above, allow, why), map[string]any{"above": above, "allow_write": allow, "requests": reqs})
					} else {
						r.Outcome("root-location-ok")
					}
				}
				br.Stop()
			}
		}
		os.RemoveAll(locs)
		os.RemoveAll(binLogDir("C01"))
	}
	r.Assume("operator-placed symlinks are excluded by the property; Windows path forms are not explored; the twin world differs only in what exists outside the root")
}
