package verifh

import (
	"bytes"
	"encoding/hex"
	"io"
	"os"
	"os/exec"
	"path/filepath"
	"strings"
	"testing"
	"time"
)

// C20: offline tools. make-iso output = the image the server serves; decrypt output = reference plaintext, to a file
// or stdout, served back unchanged; existing output files are never clobbered.

func maskedEqual(a, b []byte, mask func(int64, []byte)) string {
	if len(a) != len(b) {
		return sprintf("sizes differ: %d vs %d", len(a), len(b))
	}
	x, y := append([]byte{}, a...), append([]byte{}, b...)
	mask(0, x)
	mask(0, y)
	return describeDiff(x, y)
}

// serveWhole reads the object at wirePath through an in-process server (critical reads of 1 MiB).
func serveWhole(t *testing.T, root, wirePath string) (data []byte, size int64, why string) {
	open := mkReq(opOpenFile, wirePath)
	res := runSession(t, SrvOpts{Root: root}, nil, []Req{open}, Delivery{})
	if len(res.Raw) != 1 || len(res.Raw[0]) != szOpenFile {
		return nil, 0, "open-file not answered"
	}
	size = int64(be64(res.Raw[0]))
	if size < 0 {
		return nil, size, "open-file answered -1"
	}
	reqs := []Req{open}
	for off := int64(0); off < size; off += 1 << 20 {
		n := int64(1 << 20)
		if off+n > size {
			n = size - off
		}
		reqs = append(reqs, rdcReq(uint64(off), uint32(n)))
	}
	res = runSession(t, SrvOpts{Root: root}, nil, reqs, Delivery{})
	for _, r := range res.Raw[1:] {
		data = append(data, r...)
	}
	if int64(len(data)) != size {
		return data, size, sprintf("served %d bytes of announced %d", len(data), size)
	}
	return data, size, ""
}

func TestC20(t *testing.T) {
	r := NewReporter(t)
	defer r.Done()
	r.Rule("make-iso on every tree with <= N nodes in both modes and on size families: output file = library image = served image (variable fields masked), also to stdout, with the directory given as a symbolic link / with a trailing slash / '/.' / relative / through '..', and to a slowly read pipe while member files are appended to; decrypt redump / 3k3y on images over region tables x keys (and images that do not end on a sector boundary): output = reference plaintext (region table cleared; 3k3y area zeroed), to a file and to '-', and served back unchanged from PS3ISO and elsewhere; existing targets {file, directory, symlink to file} x 3 commands keep hash/size/mtime and the tool exits non-zero; output '-' with standard output being an existing file (append / positioned at end) x 3 commands x {succeeding, failing} run keeps the existing bytes in front; distinct by case description")
	base := filepath.Join(scratchBase(), sprintf("verifh-c20-%d", os.Getpid()))
	defer os.RemoveAll(base)
	env := cleanEnv(base)
	idx := 0
	tmo := 120 * time.Second
	viol := func(sig, msg string, rep map[string]any) {
		r.Outcome("VIOLATION:" + sig)
		r.Violation("C20:"+sig, msg, rep)
	}
	// ---------- (1) make-iso ----------
	maxNodes := 2
	if r.Thorough() {
		maxNodes = 4
	}
	mkCase := func(desc string, ps3 bool, build func(dir string)) {
		idx++
		if !r.Mine(idx) || r.TimeUp() {
			return
		}
		os.RemoveAll(base)
		root := filepath.Join(base, "root")
		dir := filepath.Join(root, "T")
		must(os.MkdirAll(dir, 0o755))
		must(os.MkdirAll(filepath.Join(base, "out"), 0o755))
		build(dir)
		if ps3 {
			writeFileAbs(filepath.Join(dir, "PS3_GAME", "PARAM.SFO"), mkSFO([]sfoKV{{"TITLE_ID", "BLES01234"}}), baseTime)
		}
		key := sprintf("make-iso %s ps3=%v", desc, ps3)
		r.State(key)
		r.Nontrivial(key)
		r.Eval(1)
		rep := map[string]any{"case": key}
		out := filepath.Join(base, "out", "t.iso")
		args := []string{"make-iso"}
		if ps3 {
			args = append(args, "--ps3-mode")
		}
		code, _, stderr, err := runTool(append(args, dir, out), env, base, "", tmo)
		r.Transition(1)
		if err != nil || code != 0 {
			viol("make-iso-failed", sprintf("%s: exit %d err %v stderr %s", key, code, err, lastLines(stderr, 3)), rep)
			return
		}
		tool, _ := os.ReadFile(out)
		v, err := openVISO(root, "/T", ps3)
		if err != nil {
			viol("lib-image-failed", key+": "+err.Error(), rep)
			return
		}
		st, _ := v.Stat()
		lib, err := canonicalImage(v, 1<<20, st.Size()+1<<20)
		v.Close()
		if err != nil {
			viol("lib-image-failed", key+": "+err.Error(), rep)
			return
		}
		mask := isoVarMask(ps3)
		if d := maskedEqual(tool, lib, mask); d != "" {
			viol("make-iso-differs-from-library-image", key+": make-iso output vs library image: "+d, rep)
			return
		}
		pre := "/***DVD***/T"
		if ps3 {
			pre = "/***PS3***/T"
		}
		served, _, why := serveWhole(t, root, pre)
		r.Transition(1)
		if why != "" {
			viol("served-image-unreadable", key+": "+why, rep)
			return
		}
		if d := maskedEqual(tool, served, mask); d != "" {
			viol("make-iso-differs-from-served-image", key+": make-iso output vs served image: "+d, rep)
			return
		}
		// stdout variant
		so := filepath.Join(base, "out", "stdout.iso")
		code, _, stderr, err = runTool(append(args, dir, "-"), env, base, so, tmo)
		r.Transition(1)
		sout, _ := os.ReadFile(so)
		if err != nil || code != 0 {
			viol("make-iso-stdout-failed", sprintf("%s to '-': exit %d err %v %s", key, code, err, lastLines(stderr, 3)), rep)
			return
		}
		if d := maskedEqual(sout, lib, mask); d != "" {
			viol("make-iso-stdout-differs", key+": stdout carries something else than the image: "+d, rep)
			return
		}
		r.Outcome("make-iso-ok")
		if idx%41 == 0 {
			r.Sample(map[string]any{"case": key, "image_size": len(tool)})
		}
	}
	for n := 0; n <= maxNodes; n++ {
		enumTrees(n, c09Sizes(), func(tr Tree) {
			for _, ps3 := range []bool{false, true} {
				mkCase("tree["+tr.String()+"]", ps3, func(dir string) { tr.Materialize(dir) })
			}
		})
	}
	for _, ps3 := range []bool{false, true} {
		mkCase("tree with files that look like disc images", ps3, func(dir string) {
			pairs := []uint32{0, 2, 4, 5}
			plain := patBytes(61, 0, 6*2048)
			copy(plain, regionTable(pairs))
			copy(plain[0xF70:], wmEnc)
			copy(plain[0xF80:], c10Keys[1])
			writeFileAbs(filepath.Join(dir, "backup", "enc3k3y.iso"), buildEncImage(plain, pairs, c10Keys[1]), baseTime)
			dec := patBytes(62, 0, 3*2048)
			copy(dec[0xF70:], wmDec)
			writeFileAbs(filepath.Join(dir, "backup", "dec3k3y.bin"), dec, baseTime)
			disk, _ := mkRedumpImage(6, pairs, c10Keys[2], 63)
			writeFileAbs(filepath.Join(dir, "PS3ISO", "game.iso"), disk, baseTime)
			writeFileAbs(filepath.Join(dir, "PS3ISO", "game.dkey"), []byte(hex.EncodeToString(c10Keys[2])), baseTime)
		})
	}
	for _, sz := range []int64{65535, 65536, 65537, 131073, 3<<20 + 1} {
		sz := sz
		mkCase(sprintf("file-size=%d", sz), false, func(dir string) {
			mkFileAbs(filepath.Join(dir, "a.bin"), sz, 5, baseTime)
			mkFileAbs(filepath.Join(dir, "sub", "b.bin"), 1, 6, baseTime)
		})
	}
	// the directory argument spelled in other ways (a symbolic link with a name of its own, a trailing slash, '/.', a
	// relative path): the image is the one the server serves for that directory under the name the operator used
	for si, sp := range []string{"link", "trailing-slash", "slash-dot", "relative", "dot-dot"} {
		for _, ps3 := range []bool{false, true} {
			idx++
			if !r.Mine(idx) || r.TimeUp() {
				continue
			}
			os.RemoveAll(base)
			root := filepath.Join(base, "root")
			store := filepath.Join(base, "store", "DISK0001")
			must(os.MkdirAll(filepath.Join(base, "out"), 0o755))
			mkFileAbs(filepath.Join(store, "a.bin"), 3000, 5, baseTime)
			mkFileAbs(filepath.Join(store, "sub", "b.bin"), 2048, 6, baseTime)
			if ps3 {
				writeFileAbs(filepath.Join(store, "PS3_GAME", "PARAM.SFO"), mkSFO([]sfoKV{{"TITLE_ID", "BLES01234"}}), baseTime)
			}
			must(os.MkdirAll(root, 0o755))
			arg, wire := "", "MYGAME"
			switch sp {
			case "link":
				must(os.Symlink(store, filepath.Join(root, "MYGAME")))
				arg = filepath.Join(root, "MYGAME")
			default:
				must(os.Rename(store, filepath.Join(root, "MYGAME")))
				switch sp {
				case "trailing-slash":
					arg = filepath.Join(root, "MYGAME") + "/"
				case "slash-dot":
					arg = filepath.Join(root, "MYGAME") + "/."
				case "relative":
					arg = "root/MYGAME"
				case "dot-dot":
					arg = filepath.Join(root, "MYGAME", "sub", "..")
				}
			}
			key := sprintf("make-iso of a directory given as %s ps3=%v", sp, ps3)
			r.State(key)
			r.Nontrivial(key)
			r.Eval(1)
			rep := map[string]any{"case": key, "argument": arg}
			args := []string{"make-iso"}
			pre := "/***DVD***/" + wire
			if ps3 {
				args = append(args, "--ps3-mode")
				pre = "/***PS3***/" + wire
			}
			out := filepath.Join(base, "out", "t.iso")
			code, _, stderr, err := runTool(append(args, arg, out), env, base, "", tmo)
			r.Transition(1)
			if err != nil || code != 0 {
				viol("make-iso-failed", sprintf("%s: exit %d err %v stderr %s", key, code, err, lastLines(stderr, 3)), rep)
				continue
			}
			tool, _ := os.ReadFile(out)
			served, _, why := serveWhole(t, root, pre)
			r.Transition(1)
			if why != "" {
				viol("served-image-unreadable", key+": "+why, rep)
				continue
			}
			if d := maskedEqual(tool, served, isoVarMask(ps3)); d != "" {
				viol("make-iso-differs-from-served-image:spelling", sprintf("%s (%q): make-iso output vs the image served as %s: %s", key, arg, pre, d), rep)
				continue
			}
			r.Outcome("make-iso-spelling-ok")
			_ = si
		}
	}
	// a member file that is appended to while make-iso is writing (its output goes to a pipe that is read slowly, so the
	// tool is held inside the first member when the others grow): the image is that of the tree as it was scanned -
	// what the server serves in the same situation - or the tool gives up with a non-zero exit
	for _, ps3 := range []bool{false, true} {
		idx++
		if !r.Mine(idx) || r.TimeUp() {
			continue
		}
		os.RemoveAll(base)
		root := filepath.Join(base, "root")
		dir := filepath.Join(root, "T")
		must(os.MkdirAll(dir, 0o755))
		members := []string{"A.BIN", "sub/B.BIN", "sub/C.BIN", "Z.BIN"}
		for i, m := range members {
			mkFileAbs(filepath.Join(dir, m), []int64{1 << 20, 1 << 20, 3000, 2048}[i], byte(70+i), baseTime)
		}
		if ps3 {
			writeFileAbs(filepath.Join(dir, "PS3_GAME", "PARAM.SFO"), mkSFO([]sfoKV{{"TITLE_ID", "BLES01234"}}), baseTime)
		}
		key := sprintf("make-iso to a pipe while members grow ps3=%v", ps3)
		r.State(key)
		r.Nontrivial(key)
		r.Eval(1)
		rep := map[string]any{"case": key}
		v, err := openVISO(root, "/T", ps3)
		if err != nil {
			viol("lib-image-failed", key+": "+err.Error(), rep)
			continue
		}
		st, _ := v.Stat()
		lib, err := canonicalImage(v, 1<<20, st.Size()+1<<20)
		v.Close()
		if err != nil {
			viol("lib-image-failed", key+": "+err.Error(), rep)
			continue
		}
		args := []string{"make-iso"}
		if ps3 {
			args = append(args, "--ps3-mode")
		}
		cmd := exec.Command(binPath(), append(args, dir, "-")...)
		cmd.Env, cmd.Dir = env, base
		pr, pw, err := os.Pipe()
		must(err)
		cmd.Stdout = pw
		var eb strings.Builder
		cmd.Stderr = &eb
		must(cmd.Start())
		pw.Close()
		got := make([]byte, 65536)
		n, _ := io.ReadFull(pr, got)
		got = got[:n]
		for _, m := range members {
			f, err := os.OpenFile(filepath.Join(dir, m), os.O_WRONLY|os.O_APPEND, 0)
			must(err)
			f.Write(bytes.Repeat([]byte("X"), 5000))
			f.Close()
		}
		rest, _ := io.ReadAll(pr)
		pr.Close()
		werr := cmd.Wait()
		r.Transition(1)
		got = append(got, rest...)
		if werr != nil {
			r.Outcome("make-iso-growing-member-refused")
			continue
		}
		if d := maskedEqual(got, lib, isoVarMask(ps3)); d != "" {
			viol("make-iso-growing-member", sprintf("%s: exit 0, but the output is not the image of the tree as scanned (first 64 KiB taken, then 5000 bytes appended to every member): %s | %s", key, d, lastLines(eb.String(), 2)), rep)
			continue
		}
		r.Outcome("make-iso-growing-member-ok")
	}
	// ---------- (2) decrypt ----------
	type dcase struct {
		kind  string
		pairs []uint32
		key   []byte
		cut   int // > 0: the image file ends after this many bytes (inside a plain region: dumps need not be whole sectors)
	}
	var dcs []dcase
	tables := [][]uint32{{0, 2, 5, 7, 10, 11}, {0, 1, 3, 11}, {0, 2, 4, 5}, {0, 3, 4, 6, 9, 11}, {0, 2, 10, 11}, {0, 5, 8, 13}, {0, 1, 4, 5, 7, 11}}
	for ti, pr := range tables {
		for ki, k := range c10Keys {
			if !r.Thorough() && (ti+ki)%2 == 1 {
				continue
			}
			dcs = append(dcs, dcase{"redump", pr, k, 0}, dcase{"3k3y", pr, k, 0})
		}
	}
	// region tables whose plain regions touch (a region starts at the sector the previous one ends on) or hold a single
	// sector: the tool may refuse them, but what it writes with exit status 0 is the reference plaintext
	for _, pr := range [][]uint32{{0, 3, 5, 8, 8, 11}, {0, 4, 6, 6, 9, 11}, {0, 3, 6, 8, 8, 9, 9, 11}, {0, 5, 10, 10}, {0, 3, 3, 11}} {
		dcs = append(dcs, dcase{"redump", pr, c10Keys[1], 0}, dcase{"3k3y", pr, c10Keys[2%len(c10Keys)], 0})
	}
	// images that do not end on a sector boundary (the last plain region of the first table is sectors 10-11)
	for _, cut := range []int{10*2048 + 700, 10*2048 + 1, 11*2048 + 2047, 10 * 2048} {
		dcs = append(dcs, dcase{"redump", tables[0], c10Keys[1], cut}, dcase{"3k3y", tables[0], c10Keys[1], cut})
	}
	for _, dc := range dcs {
		for _, toStdout := range []bool{false, true} {
			idx++
			if !r.Mine(idx) || r.TimeUp() {
				continue
			}
			if classifyTable(uint32(len(dc.pairs)/2), dc.pairs) == "invalid" {
				continue
			}
			os.RemoveAll(base)
			root := filepath.Join(base, "root")
			must(os.MkdirAll(filepath.Join(root, "PS3ISO"), 0o755))
			must(os.MkdirAll(filepath.Join(root, "other"), 0o755))
			must(os.MkdirAll(filepath.Join(base, "in"), 0o755))
			plain := patBytes(77, 0, 12*2048)
			copy(plain, regionTable(dc.pairs))
			if dc.kind == "3k3y" {
				if dc.pairs[1] < 1 {
					continue // watermark and key (sector 1) must be readable without the key
				}
				copy(plain[0xF70:], wmEnc)
				copy(plain[0xF80:], dc.key)
			}
			disk := buildEncImage(plain, dc.pairs, dc.key)
			if dc.cut > 0 {
				disk = disk[:dc.cut]
			}
			img := filepath.Join(base, "in", "enc.iso")
			writeFileAbs(img, disk, baseTime)
			want := refDecryptImage(disk, dc.pairs, dc.key, true)
			if dc.kind == "3k3y" {
				want = zeroMask(want)
			}
			key := sprintf("decrypt %s pairs=%v key=%x stdout=%v", dc.kind, dc.pairs, dc.key[:2], toStdout)
			if dc.cut > 0 {
				key += sprintf(" image-bytes=%d", dc.cut)
			}
			r.State(key)
			r.Nontrivial(key)
			r.Eval(1)
			rep := map[string]any{"case": key}
			outPath := filepath.Join(root, "PS3ISO", "dec.iso")
			args := []string{"decrypt", dc.kind, img}
			if dc.kind == "redump" {
				kf := filepath.Join(base, "in", "enc.dkey")
				writeFileAbs(kf, []byte(hex.EncodeToString(dc.key)), baseTime)
				args = append(args, kf)
			}
			var got []byte
			if toStdout {
				so := filepath.Join(base, "stdout.bin")
				code, _, stderr, err := runTool(append(args, "-"), env, base, so, tmo)
				r.Transition(1)
				if err == nil && code != 0 && classifyTable(uint32(len(dc.pairs)/2), dc.pairs) == "borderline" {
					r.Outcome("decrypt-borderline-table-refused")
					continue
				}
				if err != nil || code != 0 {
					viol("decrypt-failed", sprintf("%s: exit %d err %v %s", key, code, err, lastLines(stderr, 3)), rep)
					continue
				}
				got, _ = os.ReadFile(so)
				if !bytes.Equal(got, want) {
					viol("decrypt-stdout-differs:"+dc.kind, key+": stdout vs reference plaintext: "+describeDiff(got, want), rep)
					continue
				}
				r.Outcome("decrypt-stdout-ok")
				continue
			}
			code, _, stderr, err := runTool(append(args, outPath), env, base, "", tmo)
			r.Transition(1)
			if err == nil && code != 0 && classifyTable(uint32(len(dc.pairs)/2), dc.pairs) == "borderline" {
				r.Outcome("decrypt-borderline-table-refused")
				continue
			}
			if err != nil || code != 0 {
				viol("decrypt-failed", sprintf("%s: exit %d err %v %s", key, code, err, lastLines(stderr, 3)), rep)
				continue
			}
			got, _ = os.ReadFile(outPath)
			if !bytes.Equal(got, want) {
				viol("decrypt-output-differs:"+dc.kind, key+": output vs reference plaintext: "+describeDiff(got, want), rep)
				continue
			}
			// served back without a second transformation, from PS3ISO and from elsewhere
			writeFileAbs(filepath.Join(root, "other", "dec.iso"), got, baseTime)
			for _, wp := range []string{"/PS3ISO/dec.iso", "/other/dec.iso"} {
				served, _, why := serveWhole(t, root, wp)
				r.Transition(1)
				if why != "" {
					viol("decrypt-output-not-servable:"+dc.kind, sprintf("%s: output placed at %s cannot be served back: %s", key, wp, why), rep)
					break
				}
				if !bytes.Equal(served, got) {
					viol("decrypt-output-transformed-again:"+dc.kind, sprintf("%s: output placed at %s is served differently from the file: %s", key, wp, describeDiff(served, got)), rep)
					break
				}
			}
			r.Outcome("decrypt-ok")
		}
	}
	// ---------- (3) existing targets are never clobbered ----------
	for _, cmd := range []string{"make-iso", "decrypt-redump", "decrypt-3k3y"} {
		for _, kind := range []string{"file", "dir", "symlink-to-file", "file:trailing-slash", "file:via-missing-dir", "file:via-symlinked-dir", "file:dot-slash", "file:relative", "file:doubled-slash", "file:rel-trailing-slash", "file:rel-via-missing-dir", "file:rel-via-symlinked-dir", "file:rel-dot-dot"} {
			idx++
			if !r.Mine(idx) {
				continue
			}
			os.RemoveAll(base)
			must(os.MkdirAll(filepath.Join(base, "src", "T"), 0o755))
			mkFileAbs(filepath.Join(base, "src", "T", "a.bin"), 5000, 1, baseTime)
			pairs := []uint32{0, 2, 5, 7, 10, 11}
			plain := patBytes(78, 0, 12*2048)
			copy(plain, regionTable(pairs))
			copy(plain[0xF70:], wmEnc)
			copy(plain[0xF80:], c10Keys[2])
			writeFileAbs(filepath.Join(base, "src", "enc.iso"), buildEncImage(plain, pairs, c10Keys[2]), baseTime)
			writeFileAbs(filepath.Join(base, "src", "enc.dkey"), []byte(hex.EncodeToString(c10Keys[2])), baseTime)
			tdir := filepath.Join(base, "target")
			must(os.MkdirAll(tdir, 0o755))
			target := filepath.Join(tdir, "out.iso")
			spelled := target
			if strings.HasPrefix(kind, "file:") {
				// another spelling of the path of an existing file
				writeFileAbs(target, patBytes(9, 0, 100000), baseTime)
				must(os.MkdirAll(filepath.Join(tdir, "realdir", "inner"), 0o755))
				must(os.Symlink(filepath.Join(tdir, "realdir", "inner"), filepath.Join(tdir, "lnk")))
				switch kind {
				case "file:trailing-slash":
					spelled = target + "/"
				case "file:via-missing-dir":
					spelled = tdir + "/missing/../out.iso"
				case "file:via-symlinked-dir":
					spelled = tdir + "/lnk/../out.iso" // lexically tdir/out.iso, through the link tdir/realdir/out.iso
				case "file:dot-slash":
					spelled = tdir + "/./out.iso"
				case "file:relative":
					spelled = "target/out.iso"
				case "file:doubled-slash":
					spelled = tdir + "//out.iso"
				case "file:rel-trailing-slash": // relative spellings (the tool runs in `base`)
					spelled = "target/out.iso/"
				case "file:rel-via-missing-dir":
					spelled = "target/missing/../out.iso"
				case "file:rel-via-symlinked-dir":
					spelled = "target/lnk/../out.iso"
				case "file:rel-dot-dot":
					spelled = "src/../target/out.iso"
				}
			}
			switch kind {
			case "file":
				writeFileAbs(target, patBytes(9, 0, 100000), baseTime)
			case "dir":
				must(os.MkdirAll(target, 0o755))
				writeFileAbs(filepath.Join(target, "keep.txt"), []byte("keep"), baseTime)
			case "symlink-to-file":
				writeFileAbs(filepath.Join(tdir, "real.bin"), patBytes(9, 0, 100000), baseTime)
				must(os.Symlink(filepath.Join(tdir, "real.bin"), target))
			}
			before := snapshotTree(tdir, "")
			var args []string
			switch cmd {
			case "make-iso":
				args = []string{"make-iso", filepath.Join(base, "src", "T"), spelled}
			case "decrypt-redump":
				args = []string{"decrypt", "redump", filepath.Join(base, "src", "enc.iso"), filepath.Join(base, "src", "enc.dkey"), spelled}
			case "decrypt-3k3y":
				args = []string{"decrypt", "3k3y", filepath.Join(base, "src", "enc.iso"), spelled}
			}
			key := sprintf("existing target %s for %s", kind, cmd)
			r.State(key)
			r.Nontrivial(key)
			r.Eval(1)
			code, _, _, err := runTool(args, env, base, "", tmo)
			r.Transition(1)
			after := snapshotTree(tdir, "")
			rep := map[string]any{"case": key, "spelled": spelled}
			if strings.HasPrefix(kind, "file:") {
				// only the no-clobber half is judged here: some spellings legitimately name another (new) file
				if before["out.iso"] != after["out.iso"] {
					viol("existing-target-changed:"+kind, sprintf("%s (output given as %q): the existing file was modified: %s -> %s", key, spelled, before["out.iso"], after["out.iso"]), rep)
				} else {
					r.Outcome("existing-target-kept")
				}
				continue
			}
			if d := diffSnap(before, after); d != "[]" {
				viol("existing-target-changed:"+kind, sprintf("%s: the existing target was modified: %s", key, d), rep)
			} else if err != nil || code == 0 {
				viol("existing-target-exit-zero:"+kind, sprintf("%s: exit status %d (err %v), want non-zero", key, code, err), rep)
			} else {
				r.Outcome("existing-target-kept")
			}
		}
	}
	// ---------- (4) output '-' while standard output is an existing file (`tool ... - >> collected.bin`) ----------
	// whatever the run does - succeed or fail after the arguments were accepted - the bytes that were already in the
	// file stay in front; a successful run appends exactly the image
	for _, cmd := range []string{"make-iso", "decrypt-redump", "decrypt-3k3y"} {
		for _, outcome := range []string{"succeeds", "fails"} {
			for _, mode := range []string{"append", "positioned-at-end"} {
				idx++
				if !r.Mine(idx) {
					continue
				}
				os.RemoveAll(base)
				must(os.MkdirAll(filepath.Join(base, "src", "T"), 0o755))
				mkFileAbs(filepath.Join(base, "src", "T", "a.bin"), 5000, 1, baseTime)
				pairs := []uint32{0, 2, 5, 7, 10, 11}
				plain := patBytes(78, 0, 12*2048)
				copy(plain, regionTable(pairs))
				copy(plain[0xF70:], wmEnc)
				copy(plain[0xF80:], c10Keys[2])
				writeFileAbs(filepath.Join(base, "src", "enc.iso"), buildEncImage(plain, pairs, c10Keys[2]), baseTime)
				writeFileAbs(filepath.Join(base, "src", "plainfile.iso"), patBytes(3, 0, 12*2048), baseTime)
				writeFileAbs(filepath.Join(base, "src", "enc.dkey"), []byte(hex.EncodeToString(c10Keys[2])), baseTime)
				writeFileAbs(filepath.Join(base, "src", "short.dkey"), []byte("abcd"), baseTime)
				var args []string
				switch cmd + "/" + outcome {
				case "make-iso/succeeds":
					args = []string{"make-iso", filepath.Join(base, "src", "T"), "-"}
				case "make-iso/fails": // PS3 mode needs PS3_GAME/PARAM.SFO
					args = []string{"make-iso", "--ps3-mode", filepath.Join(base, "src", "T"), "-"}
				case "decrypt-redump/succeeds":
					args = []string{"decrypt", "redump", filepath.Join(base, "src", "enc.iso"), filepath.Join(base, "src", "enc.dkey"), "-"}
				case "decrypt-redump/fails":
					args = []string{"decrypt", "redump", filepath.Join(base, "src", "enc.iso"), filepath.Join(base, "src", "short.dkey"), "-"}
				case "decrypt-3k3y/succeeds":
					args = []string{"decrypt", "3k3y", filepath.Join(base, "src", "enc.iso"), "-"}
				case "decrypt-3k3y/fails": // no 3k3y watermark
					args = []string{"decrypt", "3k3y", filepath.Join(base, "src", "plainfile.iso"), "-"}
				}
				collected := filepath.Join(base, "collected.bin")
				old := patBytes(11, 0, 3500)
				writeFileAbs(collected, old, baseTime)
				flags := os.O_WRONLY | os.O_APPEND
				if mode == "positioned-at-end" {
					flags = os.O_RDWR
				}
				outf, err := os.OpenFile(collected, flags, 0)
				must(err)
				if mode == "positioned-at-end" {
					_, err = outf.Seek(0, io.SeekEnd)
					must(err)
				}
				key := sprintf("stdout is an existing file (%s), %s %s", mode, cmd, outcome)
				r.State(key)
				r.Nontrivial(key)
				r.Eval(1)
				c := exec.Command(binPath(), args...)
				c.Env, c.Dir, c.Stdout = env, base, outf
				var eb strings.Builder
				c.Stderr = &eb
				runErr := c.Run()
				outf.Close()
				r.Transition(1)
				rep := map[string]any{"case": key, "args": args}
				now, err := os.ReadFile(collected)
				must(err)
				if len(now) < len(old) || !bytes.Equal(now[:len(old)], old) {
					viol("stdout-file-clobbered:"+cmd, sprintf("%s: the file had %d bytes before the run and has %d now (first difference: %s); stderr: %s", key, len(old), len(now), describeDiff(now[:min(len(now), len(old))], old[:min(len(now), len(old))]), lastLines(eb.String(), 2)), rep)
					continue
				}
				if (outcome == "succeeds") != (runErr == nil) {
					viol("stdout-file-exit:"+cmd, sprintf("%s: run error %v; stderr: %s", key, runErr, lastLines(eb.String(), 3)), rep)
					continue
				}
				if outcome == "succeeds" {
					// ... and what was appended is exactly the image / the reference plaintext
					var want []byte
					vmask := func(int64, []byte) {}
					switch cmd {
					case "make-iso":
						v, err := openVISO(filepath.Join(base, "src"), "/T", false)
						must(err)
						st, _ := v.Stat()
						want, err = canonicalImage(v, 1<<20, st.Size()+1<<20)
						v.Close()
						must(err)
						vmask = isoVarMask(false)
					case "decrypt-redump":
						want = refDecryptImage(buildEncImage(plain, pairs, c10Keys[2]), pairs, c10Keys[2], true)
					case "decrypt-3k3y":
						want = zeroMask(refDecryptImage(buildEncImage(plain, pairs, c10Keys[2]), pairs, c10Keys[2], true))
					}
					if d := maskedEqual(now[len(old):], want, vmask); d != "" {
						viol("stdout-file-appended-differs:"+cmd, sprintf("%s: the bytes appended to the file are not the image (%d bytes appended, image has %d): %s", key, len(now)-len(old), len(want), d), rep)
						continue
					}
				}
				r.Outcome("stdout-file-kept:" + outcome)
			}
		}
	}
	r.Assume("reference plaintext of decrypt: region table cleared (the tool requests header clearing), 3k3y watermark/key area zeroed so that the output is not taken for an encrypted image again; a dangling symlink as target is not judged (nothing exists that could be clobbered)")
}
