package verifh

import (
	"bytes"
	"os"
	"path/filepath"
	"strings"
	"testing"
	"testing/synctest"
	"time"

	"github.com/spf13/afero"
)

// C16: idle connections are cut after the read timeout, active ones never. Decided exactly on the virtual clock.

type c16Event struct {
	Kind string  `json:"k"` // adv | send1 | sendcmd | sendhalf | sendrest
	Frac float64 `json:"f,omitempty"`
}

var c16Events = []c16Event{{"adv", 0.2}, {"adv", 0.5}, {"adv", 0.8}, {"adv", 1.0}, {"adv", 1.2}, {"send1", 0}, {"sendcmd", 0}, {"sendhalf", 0}, {"sendrest", 0}, {"sendover", 0}}

func c16Script(allow bool) []Req {
	if allow {
		// writing enabled: the payload of an accepted upload is received through the transfer copier
		return []Req{mkReq(opCreateFile, "/w/up.bin"), wrReq(patBytes(4, 0, 1000)), mkReq(opStatFile, "/a.txt"), wrReq([]byte("0123456789"))}
	}
	// requests with a path, with a payload, and header-only ones (16 bytes, nothing behind them)
	return []Req{mkReq(opStatFile, "/a.txt"), mkReq(opOpenFile, "/f.bin"), rdReq(5, 10), wrReq([]byte("0123456789")), mkReq(opOpenDir, "/"), noargReq(opReadDirEntry)}
}

// c16Run executes one event sequence; returns the index of the event at which the connection was closed (-1 = never)
// and a violation text.
func c16Run(t *testing.T, root string, T time.Duration, seq []int, allow bool) (closedAtStep int, why string, trace []string) {
	closedAtStep = -1
	synctest.Test(t, func(t *testing.T) {
		leaf := newVFs(afero.NewOsFs(), "leaf")
		leaf.record = false
		s := startSrv(SrvOpts{Root: root, Timeout: T, AllowWrite: allow, LeafWrap: func(afero.Fs) afero.Fs { return leaf }})
		start := time.Now()
		c := s.Dial(nil)
		synctest.Wait()
		m := newModel(root, allow)
		script := c16Script(allow)
		ri := 0            // current request
		delivered := 0     // bytes of the current request delivered
		waitStart := start // instant the server started waiting for the current request
		cur := script[0].Encode()
		fail := func(sg, f string, a ...any) {
			if why == "" {
				why = sg + "|" + sprintf(f, a...)
			}
		}
		for step, ei := range seq {
			ev := c16Events[ei]
			now := time.Now()
			D := waitStart.Add(T)
			switch ev.Kind {
			case "adv":
				d := time.Duration(float64(T) * ev.Frac)
				time.Sleep(d)
				synctest.Wait()
				after := now.Add(d)
				trace = append(trace, sprintf("t=%v adv %v", after.Sub(start), d))
				if !D.After(after) { // deadline falls inside (now, after]
					if !c.ServerClosed() {
						fail("not-cut-at-deadline", "step %d: request %d incomplete (%d of %d bytes) at its deadline %v, but the connection is still open at %v", step, ri, delivered, len(cur), D.Sub(start), after.Sub(start))
					} else if !c.ClosedAt().Equal(D) {
						fail("cut-at-wrong-instant", "step %d: connection closed at %v, reference deadline is %v (wait started %v, T=%v)", step, c.ClosedAt().Sub(start), D.Sub(start), waitStart.Sub(start), T)
					}
					if x := c.Take(); len(x) != 0 {
						fail("stray-bytes-at-timeout", "step %d: %d stray bytes at timeout", step, len(x))
					}
					closedAtStep = step
				} else if c.ServerClosed() {
					fail("cut-before-deadline", "step %d: connection cut at %v although the deadline of request %d is %v (wait started %v)", step, c.ClosedAt().Sub(start), ri, D.Sub(start), waitStart.Sub(start))
					closedAtStep = step
				}
			default:
				n := 0
				rem := len(cur) - delivered
				switch ev.Kind {
				case "send1":
					n = 1
				case "sendcmd":
					n = 16 - delivered
					if n <= 0 {
						n = 1
					}
				case "sendhalf":
					n = (rem + 1) / 2
				case "sendrest", "sendover":
					n = rem
				}
				if n > rem {
					n = rem
				}
				piece := cur[delivered : delivered+n]
				over := 0
				if ev.Kind == "sendover" {
					// one segment carries the rest of this request and the 16-byte command of the next one
					next := script[(ri+1)%len(script)].Encode()
					over = min(16, len(next)-1)
					piece = append(append([]byte{}, piece...), next[:over]...)
				}
				c.Send(piece)
				synctest.Wait()
				delivered += n
				trace = append(trace, sprintf("t=%v %s %d bytes (request %d: %d/%d)", now.Sub(start), ev.Kind, n, ri, delivered, len(cur)))
				if c.ServerClosed() {
					fail("cut-while-delivering", "step %d: connection closed at %v while delivering request %d before its deadline %v", step, c.ClosedAt().Sub(start), ri, D.Sub(start))
					closedAtStep = step
					break
				}
				resp := c.Take()
				if delivered == len(cur) {
					rq := script[ri%len(script)]
					m.Pre(rq)
					if w, _ := m.Check(rq, resp, false); w != "" {
						fail("wrong-response", "step %d: response to completed request %d: %s", step, ri, w)
					}
					ri++
					cur = script[ri%len(script)].Encode()
					delivered = over
					waitStart = time.Now() // the server re-arms when it starts waiting for the next request
				} else if len(resp) != 0 {
					fail("early-response", "step %d: %d response bytes before request %d was complete", step, len(resp), ri)
				}
			}
			if closedAtStep >= 0 || why != "" {
				break
			}
		}
		if closedAtStep >= 0 && why == "" {
			synctest.Wait()
			if l := leaf.Outstanding(); len(l) > 0 {
				fail("handle-leak-after-cut", "after the cut %d handle(s) stay open: %v", len(l), l)
			}
		}
		s.Shutdown()
		select {
		case <-s.done:
		default:
			fail("serve-stuck", "Serve did not return")
		}
		if l := leaf.Outstanding(); len(l) > 0 {
			fail("handle-leak", "after shutdown %d handle(s) stay open: %v", len(l), l)
		}
	})
	return
}

// ---- bursts of 2 / 3 / 8 connections queued before the accept loop runs, each with its own deadline; slow-drain family: an active client that takes its time to receive a large response ----

var c16DrainEvents = []string{"adv0.3", "adv0.55", "req", "drain4k", "drainall"}

// c16DrainRun: the client opens /big.bin, then follows the event sequence. A sequence is judged only while its premise
// holds (consecutive requests are issued less than T apart); returns executed = number of events judged.
func c16DrainRun(t *testing.T, root string, T time.Duration, seq []int, want []byte) (executed int, why string, trace []string) {
	synctest.Test(t, func(t *testing.T) {
		leaf := newVFs(afero.NewOsFs(), "leaf")
		leaf.record = false
		s := startSrv(SrvOpts{Root: root, Timeout: T, LeafWrap: func(afero.Fs) afero.Fs { return leaf }})
		start := time.Now()
		c := s.Dial(nil)
		c.outCap = 4096
		synctest.Wait()
		fail := func(sg, f string, a ...any) {
			if why == "" {
				why = sg + "|" + sprintf(f, a...)
			}
		}
		c.Send(mkReq(opOpenFile, "/big.bin").Encode())
		synctest.Wait()
		if x := c.Take(); len(x) != szOpenFile || int64(be64(x)) != int64(len(want)) {
			fail("open", "open of /big.bin answered %s", hexHead(x))
		}
		lastReq := time.Now()
		outstanding := 0 // response bytes of the current request not yet received
		var got []byte
	events:
		for step, ei := range seq {
			if why != "" {
				break
			}
			ev := c16DrainEvents[ei]
			switch ev {
			case "adv0.3", "adv0.55":
				f := 0.3
				if ev == "adv0.55" {
					f = 0.55
				}
				d := time.Duration(float64(T) * f)
				if time.Since(lastReq)+d >= T {
					break events // premise: the client issues requests more often than T - this sequence leaves it
				}
				time.Sleep(d)
				synctest.Wait()
			case "req":
				if outstanding > 0 {
					break events // requests are issued one at a time
				}
				c.Send(rdcReq(0, uint32(len(want))).Encode())
				lastReq = time.Now()
				outstanding = len(want)
				got = got[:0]
				synctest.Wait()
			case "drain4k", "drainall":
				if outstanding == 0 {
					break events
				}
				for {
					var x []byte
					if ev == "drain4k" {
						x = c.TakeN(4096)
					} else {
						x = c.Take()
					}
					synctest.Wait()
					got = append(got, x...)
					outstanding -= len(x)
					if ev == "drain4k" || len(x) == 0 || outstanding <= 0 {
						break
					}
				}
				if outstanding < 0 || !bytes.Equal(got, want[:len(got)]) {
					fail("wrong-bytes", "step %d: received bytes are not a prefix of the requested range (%d bytes received)", step, len(got))
				}
			}
			trace = append(trace, sprintf("t=%v %s (outstanding %d)", time.Since(start), ev, outstanding))
			executed = step + 1
			if c.ServerClosed() {
				fail("active-client-cut", "step %d (%s): the connection was closed at %v although the client issued its last request at %v (T=%v) and is receiving the response (%d bytes outstanding)", step, ev, c.ClosedAt().Sub(start), lastReq.Sub(start), T, outstanding)
			}
		}
		c.Fin()
		for {
			x := c.Take()
			synctest.Wait()
			if len(x) == 0 {
				break
			}
		}
		s.Shutdown()
		if l := leaf.Outstanding(); len(l) > 0 {
			fail("handle-leak", "after shutdown %d handle(s) stay open: %v", len(l), l)
		}
	})
	return
}

func TestC16(t *testing.T) {
	r := NewReporter(t)
	defer r.Done()
	r.Rule("T in {100 ms, 1 s, 10 min} x all event sequences of length <= depth over {advance 0.2T,0.5T,0.8T,1.0T,1.2T; deliver 1 byte; deliver rest of the 16-byte command; deliver half of the rest; deliver rest of request; deliver rest of request together with the next command's 16 bytes} over a cyclic script {Stat, OpenFile, ReadFile (header only), WriteFile+payload (refused), OpenDir, ReadDirEntry (header only)} and, with writing enabled, {CreateFile, WriteFile+1000-byte payload, Stat, WriteFile+10 bytes}; sequences are cut at the first close; oracle: close at exactly (instant the server started waiting for the current request)+T iff the request is incomplete then, never earlier or later; completed requests answered; handle ledger empty after the cut; bursts of 2 / 3 / 8 connections queued before the accept loop runs, each with its own deadline; slow-drain family: all sequences over {advance 0.3T/0.55T, issue 40000-byte critical read, take 4096 bytes, take all} through a 4096-byte send buffer with write deadlines modelled, never cut while requests are < T apart; distinct by (T, executed event prefix); the real binary with 7 spellings of the period (fractional, compound, other units) x flag / environment / configuration file: an idle connection is cut no earlier than the period and within 20 s after it")
	w := newWorld(t, "srv/root")
	defer w.Cleanup()
	w.File("a.txt", 10, 1)
	w.File("f.bin", 5000, 2)
	w.FixDirTimes()
	depth := 6
	if r.Thorough() {
		depth = 7
	}
	r.Extra("depth", depth)
	ne := len(c16Events)
	pow := make([]int, depth+1)
	pow[0] = 1
	for i := 1; i <= depth; i++ {
		pow[i] = pow[i-1] * ne
	}
	for ti, T := range []time.Duration{100 * time.Millisecond, time.Second, 10 * time.Minute} {
		// shard by the first two events
		for pre := 0; pre < ne*ne; pre++ {
			if !r.Mine(pre + ti*ne*ne) {
				continue
			}
			lo, hi := pre*pow[depth-2], (pre+1)*pow[depth-2]
			for idx := lo; idx < hi; {
				if r.TimeUp() {
					return
				}
				seq := make([]int, depth)
				x := idx
				for k := depth - 1; k >= 0; k-- {
					seq[k] = x % ne
					x /= ne
				}
				closedAt, why, trace := c16Run(t, w.Root, T, seq, false)
				executed := depth
				if closedAt >= 0 {
					executed = closedAt + 1
				}
				r.Transition(int64(executed))
				r.Eval(1)
				key := sprintf("%v|%v", T, seq[:executed])
				r.State(key)
				r.Nontrivial(key)
				if closedAt >= 0 {
					r.Outcome(sprintf("cut-at-deadline(step %d)", closedAt))
				} else {
					r.Outcome("never-cut")
				}
				if why != "" {
					var evs []c16Event
					for _, e := range seq[:executed] {
						evs = append(evs, c16Events[e])
					}
					r.Outcome("VIOLATION")
					sg, msg, _ := strings.Cut(why, "|")
					r.Violation("C16:"+sg, sprintf("T=%v events=%v: %s", T, evs, msg), map[string]any{"T": T.String(), "events": evs, "trace": trace})
				}
				if idx%50021 == 0 {
					r.Sample(map[string]any{"T": T.String(), "trace": trace, "closed_at_step": closedAt})
				}
				// skip all sequences sharing the executed prefix
				if executed < depth {
					blk := pow[depth-executed]
					idx = (idx/blk + 1) * blk
				} else {
					idx++
				}
			}
		}
	}
	// long lives: requests spaced at a fixed fraction of T for many multiples of T are never cut; the same with the
	// spacing at or above T is cut at the first deadline
	longSeq := func(frac int, n int) []int {
		// events: 0..4 = advance 0.2,0.5,0.8,1.0,1.2 T ; 8 = deliver rest of request
		var seq []int
		for i := 0; i < n; i++ {
			seq = append(seq, frac, 8)
		}
		return seq
	}
	for ti, T := range []time.Duration{100 * time.Millisecond, time.Second, 10 * time.Minute} {
		for frac := 0; frac <= 4; frac++ {
			if !r.Mine(1000 + ti*5 + frac) {
				continue
			}
			seq := longSeq(frac, 60)
			closedAt, why, trace := c16Run(t, w.Root, T, seq, false)
			r.Transition(int64(len(seq)))
			key := sprintf("long|%v|frac%d", T, frac)
			r.State(key)
			r.Nontrivial(key)
			if why == "" {
				if frac <= 2 && closedAt >= 0 {
					why = sprintf("cut-before-deadline|a client issuing a request every %.1fT was cut at event %d", c16Events[frac].Frac, closedAt)
				}
				if frac >= 3 && closedAt != 0 {
					why = sprintf("not-cut-at-deadline|a client that stays silent for %.1fT was not cut at the first deadline (closed at event %d)", c16Events[frac].Frac, closedAt)
				}
			}
			if why != "" {
				sg, msg, _ := strings.Cut(why, "|")
				r.Violation("C16:"+sg, sprintf("T=%v long run with spacing %.1fT: %s", T, c16Events[frac].Frac, msg), map[string]any{"T": T.String(), "trace_tail": trace[max(0, len(trace)-6):]})
			} else {
				r.Outcome(sprintf("long-run-spacing-%.1fT-ok", c16Events[frac].Frac))
			}
		}
	}
	// writing enabled: the same event alphabet over a script whose uploads are accepted (create, 1000-byte payload,
	// stat, 10-byte payload) - a stall in the middle of a payload is cut like any other incomplete request
	w.MkDir("w")
	wdepth := 5
	if r.Thorough() {
		wdepth = 6
	}
	for ti, T := range []time.Duration{100 * time.Millisecond, 10 * time.Minute} {
		total := 1
		for i := 0; i < wdepth; i++ {
			total *= ne
		}
		for idx := 0; idx < total; {
			seq := make([]int, wdepth)
			x := idx
			for k := wdepth - 1; k >= 0; k-- {
				seq[k] = x % ne
				x /= ne
			}
			if !r.Mine(3000 + ti*ne*ne + seq[0]*ne + seq[1]) {
				blk := total / (ne * ne)
				idx = (idx/blk + 1) * blk
				continue
			}
			if r.TimeUp() {
				return
			}
			closedAt, why, trace := c16Run(t, w.Root, T, seq, true)
			executed := wdepth
			if closedAt >= 0 {
				executed = closedAt + 1
			}
			r.Transition(int64(executed))
			r.Eval(1)
			key := sprintf("upload|%v|%v", T, seq[:executed])
			r.State(key)
			r.Nontrivial(key)
			if closedAt >= 0 {
				r.Outcome(sprintf("upload:cut-at-deadline(step %d)", closedAt))
			} else {
				r.Outcome("upload:never-cut")
			}
			if why != "" {
				var evs []c16Event
				for _, e := range seq[:executed] {
					evs = append(evs, c16Events[e])
				}
				r.Outcome("VIOLATION")
				sg, msg, _ := strings.Cut(why, "|")
				r.Violation("C16:upload:"+sg, sprintf("T=%v writing enabled, events=%v: %s", T, evs, msg), map[string]any{"T": T.String(), "events": evs, "trace": trace})
			}
			if executed < wdepth {
				blk := 1
				for i := 0; i < wdepth-executed; i++ {
					blk *= ne
				}
				idx = (idx/blk + 1) * blk
			} else {
				idx++
			}
		}
	}
	// connections that arrive in a burst (all queued before the accept loop gets to run): every one of them has its
	// own deadline - silent ones are cut at exactly T, the ones that sent a request at 0.5T at exactly 1.5T
	for ti, T := range []time.Duration{100 * time.Millisecond, 10 * time.Minute} {
		for _, n := range []int{2, 3, 8} {
			if !r.Mine(4000 + ti*10 + n) {
				continue
			}
			var why string
			synctest.Test(t, func(t *testing.T) {
				s := startSrv(SrvOpts{Root: w.Root, Timeout: T})
				start := time.Now()
				var cs []*Conn
				for i := 0; i < n; i++ {
					cs = append(cs, s.Dial(nil))
				}
				synctest.Wait()
				time.Sleep(T / 2)
				synctest.Wait()
				for i, c := range cs {
					if c.ServerClosed() {
						why = sprintf("connection %d of a burst of %d was closed at %v, before its deadline %v", i, n, c.ClosedAt().Sub(start), T)
					}
					if i%2 == 1 {
						c.Send(mkReq(opStatFile, "/a.txt").Encode())
					}
				}
				synctest.Wait()
				for i, c := range cs {
					if got := c.Take(); i%2 == 1 && len(got) != szStat && why == "" {
						why = sprintf("connection %d of a burst of %d sent a request at 0.5T and got %d bytes back", i, n, len(got))
					}
				}
				time.Sleep(T/2 + T/10)
				synctest.Wait()
				for i, c := range cs {
					want := T
					if i%2 == 1 {
						want = T + T/2
					}
					if i%2 == 0 && why == "" {
						if !c.ServerClosed() {
							why = sprintf("silent connection %d of a burst of %d is still open at 1.1T (T=%v): it was never given a deadline", i, n, T)
						} else if c.ClosedAt().Sub(start) != want {
							why = sprintf("silent connection %d of a burst of %d was closed at %v, its deadline is %v", i, n, c.ClosedAt().Sub(start), want)
						}
					}
					if i%2 == 1 && c.ServerClosed() && why == "" {
						why = sprintf("connection %d of a burst of %d sent a request at 0.5T and was cut at %v, before its deadline %v", i, n, c.ClosedAt().Sub(start), want)
					}
				}
				time.Sleep(T / 2)
				synctest.Wait()
				for i, c := range cs {
					if i%2 == 1 && why == "" {
						if !c.ServerClosed() {
							why = sprintf("connection %d of a burst of %d (last request at 0.5T) is still open at 1.6T", i, n)
						} else if c.ClosedAt().Sub(start) != T+T/2 {
							why = sprintf("connection %d of a burst of %d (last request at 0.5T) was closed at %v, its deadline is %v", i, n, c.ClosedAt().Sub(start), T+T/2)
						}
					}
				}
				s.Shutdown()
			})
			key := sprintf("burst|%v|%d", T, n)
			r.Transition(int64(3 * n))
			r.Eval(1)
			r.State(key)
			r.Nontrivial(key)
			if why != "" {
				r.Violation("C16:burst", sprintf("T=%v: %s", T, why), map[string]any{"T": T.String(), "connections": n})
			} else {
				r.Outcome("burst-ok")
			}
		}
	}
	// slow drain: all event sequences over {advance 0.3T, 0.55T; issue a 40000-byte critical read; take 4096 bytes;
	// take everything} through a 4096-byte send buffer, judged while consecutive requests are less than T apart
	w.File("big.bin", 40000, 3)
	bigWant := patBytes(3, 0, 40000)
	ddepth := 6
	if r.Thorough() {
		ddepth = 8
	}
	nd := len(c16DrainEvents)
	for ti, T := range []time.Duration{100 * time.Millisecond, 10 * time.Minute} {
		total := 1
		for i := 0; i < ddepth; i++ {
			total *= nd
		}
		for idx := 0; idx < total; {
			seq := make([]int, ddepth)
			x := idx
			for k := ddepth - 1; k >= 0; k-- {
				seq[k] = x % nd
				x /= nd
			}
			// shard by the first two events
			if !r.Mine(2000 + ti*nd*nd + seq[0]*nd + seq[1]) {
				blk := total / (nd * nd)
				idx = (idx/blk + 1) * blk
				continue
			}
			if r.TimeUp() {
				return
			}
			executed, why, trace := c16DrainRun(t, w.Root, T, seq, bigWant)
			r.Transition(int64(executed) + 1)
			r.Eval(1)
			key := sprintf("drain|%v|%v", T, seq[:executed])
			r.State(key)
			r.Nontrivial(key)
			if why != "" {
				var evs []string
				for _, e := range seq[:min(executed+1, len(seq))] {
					evs = append(evs, c16DrainEvents[e])
				}
				r.Outcome("VIOLATION")
				sg, msg, _ := strings.Cut(why, "|")
				r.Violation("C16:drain:"+sg, sprintf("T=%v slow-drain events=%v: %s", T, evs, msg), map[string]any{"T": T.String(), "events": evs, "trace": trace})
			} else {
				r.Outcome(sprintf("slow-drain-never-cut(%d events)", executed))
			}
			// skip all sequences sharing the judged prefix plus the event that left the premise
			if executed < ddepth {
				blk := 1
				for i := 0; i < ddepth-executed-1; i++ {
					blk *= nd
				}
				idx = (idx/blk + 1) * blk
			} else {
				idx++
			}
		}
	}
	// the real binary: the period is what the operator wrote (whole, fractional, compound spellings, through flag,
	// environment and configuration file). One-sided on a real clock: a cut before the period is a violation at once
	// (timers never fire early); a connection still open 20 s after the period is one too.
	if binPath() != "" {
		logDir := binLogDir("C16")
		must(os.MkdirAll(logDir, 0o755))
		root := filepath.Join(logDir, "root")
		must(os.MkdirAll(root, 0o755))
		spellings := []struct {
			text string
			d    time.Duration
		}{{"1.5s", 1500 * time.Millisecond}, {"0.5s", 500 * time.Millisecond}, {"1500ms", 1500 * time.Millisecond}, {"0.025m", 1500 * time.Millisecond}, {"1s500ms", 1500 * time.Millisecond}, {"2s", 2 * time.Second}, {"0.0005h", 1800 * time.Millisecond}}
		for si, sp := range spellings {
			for ci, channel := range []string{"flag", "env", "ini"} {
				if !r.Mine(si*3+ci) || r.TimeUp() {
					continue
				}
				args := []string{"server", "--listen-addr=127.0.0.1:0", "--root=" + root}
				env := cleanEnv(logDir)
				switch channel {
				case "flag":
					args = append(args, "--read-timeout="+sp.text)
				case "env":
					env = append(env, "PS3NETSRV_READ_TIMEOUT="+sp.text)
				case "ini":
					ini := filepath.Join(logDir, sprintf("c16-%d-%d.ini", si, r.Shard))
					must(os.WriteFile(ini, []byte("[server]\nread-timeout = "+sp.text+"\n"), 0o644))
					args = append([]string{"--config=" + ini}, args...)
				}
				key := sprintf("real binary: read-timeout %q via %s", sp.text, channel)
				r.State(key)
				r.Nontrivial(key)
				b, err := startBin(args, env, logDir, filepath.Join(logDir, sprintf("server-%d.log", r.Shard)), 30*time.Second)
				r.Trace(1)
				if err != nil {
					r.Outcome("bin-timeout-spelling-refused")
					if b != nil {
						b.Stop()
					}
					continue // whether a spelling is accepted is C19's business; here only what an accepted one means
				}
				c, err := dialFrom(b.Addr, "", 10*time.Second)
				if err != nil {
					b.Stop()
					continue
				}
				// one complete request first, then silence: the server starts its period after it has answered, which is
				// later than the instant taken here before the request is sent - so "earlier than the period" is sound
				// whatever the load on this machine
				start := time.Now()
				c.statProbe("/", 10*time.Second)
				_, rerr := c.readN(1, sp.d+20*time.Second)
				el := time.Since(start)
				c.Close()
				b.Stop()
				switch {
				case rerr != nil && isTimeout(rerr):
					r.Outcome("bin-timeout-not-applied")
					r.Violation("C16:bin:not-cut", sprintf("%s: an idle connection was still open %v after its last request (period %v)", key, el.Round(time.Millisecond), sp.d), map[string]any{"spelling": sp.text, "channel": channel})
				case el < sp.d-50*time.Millisecond:
					r.Outcome("bin-timeout-early")
					r.Violation("C16:bin:cut-early", sprintf("%s: an idle connection was cut %v after its last request, before the period of %v had passed", key, el.Round(time.Millisecond), sp.d), map[string]any{"spelling": sp.text, "channel": channel})
				default:
					r.Outcome("bin-timeout-applied")
				}
			}
		}
		os.RemoveAll(logDir)
	}
	r.Assume("virtual clock of testing/synctest; vnet deadlines use bubble timers; processing takes zero virtual time, so 'the instant the server started waiting' is the instant the previous request was completed (or the connection accepted)")
}
