package verifh

import (
	"io/fs"
	"os"
	"path/filepath"
	"time"
)

// Changes applied to a served tree between two requests (by another program, or by the protocol's own uploads).
// Every property that speaks about "the file" / "the directory" / "the tree" means the one that is there when the
// request is made; an answer remembered from an earlier request is only right while nothing changed.

// replaceFileAbs puts a new file (new inode) under the name p, the way editors, rsync and download tools do.
func replaceFileAbs(p string, size int64, seed byte, mt time.Time) {
	tmp := p + ".tmp~"
	mkFileAbs(tmp, size, seed, mt)
	must(os.Rename(tmp, p))
}

// setAllTimes gives every object at or below dir the same modification time (what `cp -p`, `rsync -t` or an
// archive extraction leave behind): remembered answers keyed by modification time are then indistinguishable.
func setAllTimes(dir string, t time.Time) {
	var paths []string
	filepath.WalkDir(dir, func(p string, d fs.DirEntry, err error) error {
		if err == nil && d.Type()&fs.ModeSymlink == 0 {
			paths = append(paths, p)
		}
		return nil
	})
	for i := len(paths) - 1; i >= 0; i-- {
		os.Chtimes(paths[i], t, t)
	}
}

type treeChange struct {
	name string
	do   func(base string) // base = the directory that holds a.bin, s1/b.bin, s1/s2/c.bin, s1/z.bin (empty), e/ (empty)
}

func changeBaseTree(base string) {
	os.RemoveAll(base)
	mkFileAbs(filepath.Join(base, "a.bin"), 1000, 3, baseTime)
	mkFileAbs(filepath.Join(base, "s1", "b.bin"), 2000, 4, baseTime)
	mkFileAbs(filepath.Join(base, "s1", "z.bin"), 0, 4, baseTime)
	mkFileAbs(filepath.Join(base, "s1", "s2", "c.bin"), 3000, 5, baseTime)
	must(os.MkdirAll(filepath.Join(base, "e"), 0o755))
	setAllTimes(base, baseTime)
}

func treeChanges() []treeChange {
	later := baseTime.Add(90 * time.Minute)
	return []treeChange{
		{"deep file grows in place", func(b string) {
			f, err := os.OpenFile(filepath.Join(b, "s1", "s2", "c.bin"), os.O_WRONLY|os.O_APPEND, 0)
			must(err)
			f.Write(patBytes(9, 0, 4321))
			must(f.Close())
		}},
		{"top file shrinks in place", func(b string) { must(os.Truncate(filepath.Join(b, "a.bin"), 10)) }},
		{"empty file gets content in place", func(b string) { must(os.WriteFile(filepath.Join(b, "s1", "z.bin"), patBytes(8, 0, 2500), 0o644)) }},
		{"file replaced by another of other size", func(b string) { replaceFileAbs(filepath.Join(b, "s1", "b.bin"), 7777, 6, later) }},
		{"file replaced by another of the same size and time", func(b string) { replaceFileAbs(filepath.Join(b, "s1", "b.bin"), 2000, 7, baseTime) }},
		{"deep file added", func(b string) { mkFileAbs(filepath.Join(b, "s1", "s2", "d.bin"), 555, 6, later) }},
		{"deep file removed", func(b string) { must(os.Remove(filepath.Join(b, "s1", "s2", "c.bin"))) }},
		{"subdirectory with a file added", func(b string) { mkFileAbs(filepath.Join(b, "s1", "s3", "n.bin"), 4096, 6, later) }},
		{"empty directory replaced by a file, file by a directory", func(b string) {
			must(os.Remove(filepath.Join(b, "e")))
			mkFileAbs(filepath.Join(b, "e"), 77, 2, later)
			must(os.Remove(filepath.Join(b, "a.bin")))
			mkFileAbs(filepath.Join(b, "a.bin", "inner.bin"), 99, 2, later)
		}},
		{"subdirectory renamed", func(b string) { must(os.Rename(filepath.Join(b, "s1"), filepath.Join(b, "s9"))) }},
		{"everything removed", func(b string) {
			for _, n := range []string{"a.bin", "s1", "e"} {
				must(os.RemoveAll(filepath.Join(b, n)))
			}
		}},
	}
}
