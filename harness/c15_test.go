package verifh

import (
	"os"
	"path/filepath"
	"syscall"
	"time"

	"github.com/spf13/afero"

	"net"
	"net/netip"
	"strings"
	"testing"
	"testing/synctest"

	"golang.org/x/net/netutil"

	"github.com/xakep666/ps3netsrv-go/pkg/iprange"
)

// C15: admission control. Whitelist and client limit are enforced, capacity recovers.

type c15Ev struct {
	Kind string `json:"k"` // in | out | stat | close
	I    int    `json:"i,omitempty"`
}

type c15Client struct {
	conn   *Conn
	in     bool
	closed bool // client sent FIN
	stats  int
	got    int
}

func c15Wrap(N int, wl *iprange.IPRange) func(net.Listener) net.Listener {
	return func(l net.Listener) net.Listener {
		// same order as cmd/ps3netsrv-go/server.go: limit first, filter outermost
		if N > 0 {
			l = netutil.LimitListener(l, N)
		}
		if wl != nil {
			l = iprange.FilterListener(l, wl, false)
		}
		return l
	}
}

// c15Run replays an event history on a fresh server and checks the invariants after every event.
// Returns the abstract state key, the number of clients, and a violation.
func c15Run(t *testing.T, root string, N int, wl *iprange.IPRange, hist []c15Ev, final bool) (key string, nclients int, sig, why string) {
	synctest.Test(t, func(t *testing.T) {
		s := startSrv(SrvOpts{Root: root, LnWrap: c15Wrap(N, wl)})
		var cl []*c15Client
		fail := func(sg, f string, a ...any) {
			if why == "" {
				sig, why = sg, sprintf(f, a...)
			}
		}
		paused := false
		check := func(step int, ev c15Ev) {
			synctest.Wait()
			if paused {
				// an accept failure may still lie ahead of the accept loop (it only calls accept(2) when a slot is free);
				// its retry pause is legitimate: give it (virtual) time before judging who is served
				time.Sleep(3 * time.Second)
				synctest.Wait()
			}
			serving, waiting := 0, 0
			for i, c := range cl {
				c.got += len(c.conn.Take())
				started, sclosed := c.conn.Started(), c.conn.ServerClosed()
				if !c.in {
					if c.got != 0 || c.conn.Consumed() != 0 {
						fail("rejected-client-served", "step %d %v: client %d is outside the whitelist but received %d bytes / had %d request bytes consumed", step, ev, i, c.got, c.conn.Consumed())
					}
					if started && !sclosed {
						fail("rejected-client-served", "step %d %v: client %d is outside the whitelist but the server is reading from it", step, ev, i)
					}
					if !sclosed {
						waiting++
					}
					continue
				}
				switch {
				case sclosed:
					// served and finished (the client closed) - it must have got all its answers
					if !c.closed {
						fail("whitelisted-client-dropped", "step %d %v: client %d is inside the whitelist and did not close, but the server closed it", step, ev, i)
					}
					if c.got != szStat*c.stats {
						fail("wrong-response-count", "step %d %v: finished client %d sent %d requests and got %d bytes", step, ev, i, c.stats, c.got)
					}
				case started:
					serving++
					if c.got != szStat*c.stats {
						fail("wrong-response-count", "step %d %v: served client %d sent %d requests and got %d bytes", step, ev, i, c.stats, c.got)
					}
				default:
					waiting++
					if c.got != 0 {
						fail("waiting-client-served", "step %d %v: client %d is waiting for a slot but received %d bytes", step, ev, i, c.got)
					}
				}
			}
			if N > 0 && serving > N {
				fail("limit-exceeded", "step %d %v: %d connections are being served, limit is %d", step, ev, serving, N)
			}
			if (N == 0 || serving < N) && waiting > 0 {
				fail("capacity-lost", "step %d %v: only %d of %d slots in use but %d connection(s) are still waiting (neither served nor rejected)", step, ev, serving, N, waiting)
			}
		}
		for step, ev := range hist {
			switch ev.Kind {
			case "in":
				c := s.Dial(&net.TCPAddr{IP: net.IPv4(127, 0, 0, 1), Port: 50000 + len(cl)})
				cl = append(cl, &c15Client{conn: c, in: true})
			case "out":
				c := s.Dial(&net.TCPAddr{IP: net.IPv4(127, 0, 0, 9), Port: 50000 + len(cl)})
				cl = append(cl, &c15Client{conn: c, in: wl == nil})
			case "stat":
				c := cl[ev.I]
				c.conn.Send(mkReq(opStatFile, "/").Encode())
				c.stats++
			case "close":
				c := cl[ev.I]
				c.conn.Fin()
				c.closed = true
			case "aerr":
				// accept(2) fails once with a temporary error (descriptor table full, aborted connection); the accept
				// loop pauses and goes on - admission control is the same afterwards
				s.ln.FailAccepts(1, tempAcceptErr(syscall.EMFILE))
				paused = true
			}
			check(step, ev)
			if why != "" {
				break
			}
		}
		var kb strings.Builder
		for _, c := range cl {
			kb.WriteString(sprintf("%v%v%d%v%v;", c.in, c.closed, c.stats, c.conn.Started(), c.conn.ServerClosed()))
		}
		for _, e := range hist {
			if e.Kind == "aerr" {
				kb.WriteString("E")
			}
		}
		key = kb.String()
		nclients = len(cl)
		if final && why == "" {
			// capacity recovery: everyone leaves, then N (or 3) fresh whitelisted clients must all be answered
			for _, c := range cl {
				if !c.closed {
					c.conn.Fin()
					c.closed = true
				}
			}
			check(len(hist), c15Ev{Kind: "close-all"})
			fresh := N
			if fresh == 0 {
				fresh = 3
			}
			base := len(cl)
			for k := 0; k < fresh; k++ {
				c := s.Dial(&net.TCPAddr{IP: net.IPv4(127, 0, 0, 2), Port: 51000 + k})
				cl = append(cl, &c15Client{conn: c, in: true})
				c.Send(mkReq(opStatFile, "/").Encode())
				cl[base+k].stats = 1
			}
			check(len(hist)+1, c15Ev{Kind: "fresh"})
			for k := 0; k < fresh && why == ""; k++ {
				if cl[base+k].got != szStat {
					fail("capacity-lost", "after everyone left, fresh client %d of %d was not answered (got %d bytes)", k, fresh, cl[base+k].got)
				}
			}
		}
		s.Shutdown()
		select {
		case <-s.done:
		default:
			fail("accept-loop-stuck", "after the listener was closed the accept loop did not end (a slot or goroutine is lost)")
		}
	})
	return
}

func TestC15(t *testing.T) {
	r := NewReporter(t)
	defer r.Done()
	r.Rule("Serve(FilterListener(LimitListener(listener, N), whitelist)) wired as in cmd/: N in {1,2,3} (and unlimited) x explicit-state breadth-first search over event histories {arrival inside / outside the whitelist, client i sends a request, client i closes, accept(2) fails once with a temporary error (at most 1, thorough 2 per history)} up to a depth with <= 4N live clients, deduplicated by the abstract state (per client: in/out, closed, requests sent, served, finished); invariants evaluated in every state + capacity-recovery probe from every state; every pattern of 4 arrivals whose connection Close reports an error; plus whitelist spec x source address grid over 127.0.0.0/8 and ::1; the real binary with both flags, and with a client limit under a descriptor limit chosen so that accept(2) fails while a client is served (capacity must come back), and after 2N large transfers that the client reset half-way; distinct by abstract state")
	w := newWorld(t, "srv/root")
	defer w.Cleanup()
	w.File("a.txt", 10, 1)
	wl, err := iprange.ParseIPRange("127.0.0.1-127.0.0.2")
	must(err)
	depth := 7
	if r.Thorough() {
		depth = 9
	}
	r.Extra("depth", depth)
	cfgs := []struct {
		N  int
		wl *iprange.IPRange
	}{{1, wl}, {2, wl}, {3, wl}, {2, nil}, {0, wl}}
	for ci, cfg := range cfgs {
		if !r.Mine(ci) {
			continue
		}
		maxClients := 4 * cfg.N
		if cfg.N == 0 {
			maxClients = 4
		}
		if cfg.N == 3 && !r.Thorough() {
			maxClients = 7
		}
		seen := map[string]bool{}
		caseNo := ci * 10000000
		frontier := [][]c15Ev{{}}
		for d := 0; d <= depth && len(frontier) > 0; d++ {
			var next [][]c15Ev
			for _, hist := range frontier {
				if r.TimeUp() {
					return
				}
				caseNo++
				r.Begin(caseNo, "C15:history", sprintf("N=%d whitelist=%v history=%v", cfg.N, cfg.wl != nil, hist))
				key, ncl, sig, why := c15Run(t, w.Root, cfg.N, cfg.wl, hist, true)
				r.Transition(int64(len(hist)) + 2)
				r.Eval(1)
				if why != "" {
					r.Outcome("VIOLATION:" + sig)
					r.Violation("C15:"+sig, sprintf("N=%d whitelist=%v history=%v: %s", cfg.N, cfg.wl != nil, hist, why), map[string]any{"N": cfg.N, "whitelist": cfg.wl != nil, "history": hist})
					continue
				}
				skey := sprintf("%d|%v|%s", cfg.N, cfg.wl != nil, key)
				if seen[skey] {
					r.Outcome("state-revisited")
					continue
				}
				seen[skey] = true
				r.State(skey)
				r.Nontrivial(skey)
				r.Outcome("state-new")
				if len(seen)%997 == 1 {
					r.Sample(map[string]any{"N": cfg.N, "history": hist, "state": key})
				}
				if d == depth {
					continue
				}
				// successors
				ext := func(e c15Ev) { next = append(next, append(append([]c15Ev{}, hist...), e)) }
				if ncl < maxClients {
					ext(c15Ev{Kind: "in"})
					ext(c15Ev{Kind: "out"})
				}
				naerr := 0
				for _, e := range hist {
					if e.Kind == "aerr" {
						naerr++
					}
				}
				if naerr < 1 || (r.Thorough() && naerr < 2) {
					ext(c15Ev{Kind: "aerr"})
				}
				// per-client events; which clients are still open is derived from the history
				closed := map[int]bool{}
				stats := map[int]int{}
				for _, e := range hist {
					if e.Kind == "close" {
						closed[e.I] = true
					}
					if e.Kind == "stat" {
						stats[e.I]++
					}
				}
				for i := 0; i < ncl; i++ {
					if closed[i] {
						continue
					}
					if stats[i] < 2 {
						ext(c15Ev{Kind: "stat", I: i})
					}
					ext(c15Ev{Kind: "close", I: i})
				}
			}
			frontier = next
		}
		r.ExtraAdd(sprintf("states_N%d_wl%v", cfg.N, cfg.wl != nil), int64(len(seen)))
	}
	// a connection whose state cannot be closed cleanly (every filesystem Close fails) must still give its slot back
	for _, N := range []int{1, 2} {
		if !r.Mine(100 + N) {
			continue
		}
		var why string
		synctest.Test(t, func(t *testing.T) {
			leaf := newVFs(afero.NewOsFs(), "leaf")
			leaf.record = false
			leaf.Hook = func(e FsEvent) *FsFault {
				if e.Op == "Close" {
					return &FsFault{Err: syscall.EIO}
				}
				return nil
			}
			s := startSrv(SrvOpts{Root: w.Root, LnWrap: c15Wrap(N, wl), LeafWrap: func(afero.Fs) afero.Fs { return leaf }})
			for k := 0; k < 2*N+1 && why == ""; k++ {
				c := s.Dial(&net.TCPAddr{IP: net.IPv4(127, 0, 0, 1), Port: 52000 + k})
				resp, closed := s.Exchange(c, mkReq(opOpenDir, "/").Encode())
				if len(resp) != 4 || closed {
					why = sprintf("client %d of a sequence of leaving clients (limit %d, every handle Close fails) was not served: %d bytes, closed=%v", k, N, len(resp), closed)
					break
				}
				s.Exchange(c, mkReq(opOpenFile, "/a.txt").Encode())
				c.Fin()
				synctest.Wait()
				if !c.ServerClosed() {
					why = sprintf("client %d left but the server did not close its connection (state close failed)", k)
				}
			}
			s.Shutdown()
		})
		r.Transition(int64(2*N + 1))
		r.State(sprintf("close-fault N=%d", N))
		if why != "" {
			r.Violation("C15:slot-lost-on-close-error", why, map[string]any{"N": N})
		} else {
			r.Outcome("close-fault-recovers")
		}
	}
	// a rejected or finished connection whose Close reports an error (ECONNRESET from close(2) on some systems) must
	// neither stop the accept loop nor cost a slot: every pattern of <= 4 arrivals over {inside, inside with failing
	// Close, outside, outside with failing Close}, each inside client served and leaving before the next arrival
	kinds := []string{"in", "inx", "out", "outx"}
	for _, N := range []int{1, 2} {
		for pat := 0; pat < 4*4*4*4; pat++ {
			if !r.Mine(200 + pat) {
				continue
			}
			seq := []string{kinds[pat%4], kinds[pat/4%4], kinds[pat/16%4], kinds[pat/64%4]}
			hasX := false
			for _, k := range seq {
				if k == "inx" || k == "outx" {
					hasX = true
				}
			}
			if !hasX {
				continue
			}
			var why string
			synctest.Test(t, func(t *testing.T) {
				s := startSrv(SrvOpts{Root: w.Root, LnWrap: c15Wrap(N, wl)})
				for k, kind := range append(append([]string{}, seq...), "in", "in") {
					if why != "" {
						break
					}
					ip := net.IPv4(127, 0, 0, 1)
					if kind == "out" || kind == "outx" {
						ip = net.IPv4(127, 0, 0, 9)
					}
					c := s.Dial(&net.TCPAddr{IP: ip, Port: 53000 + k})
					if kind == "inx" || kind == "outx" {
						c.closeErr = syscall.ECONNRESET
					}
					resp, closed := s.Exchange(c, mkReq(opStatFile, "/").Encode())
					if kind == "out" || kind == "outx" {
						if len(resp) != 0 || !closed {
							why = sprintf("arrival %d (%s) of %v is outside the whitelist but got %d bytes, closed=%v", k, kind, seq, len(resp), closed)
						}
						continue
					}
					if len(resp) != szStat || closed {
						why = sprintf("arrival %d (%s) of %v (limit %d) is inside the whitelist but was not served: %d bytes, closed=%v", k, kind, seq, N, len(resp), closed)
						break
					}
					c.Fin()
					synctest.Wait()
					if !c.ServerClosed() {
						why = sprintf("arrival %d (%s) of %v left but its connection was not closed", k, kind, seq)
					}
				}
				s.Shutdown()
				select {
				case <-s.done:
				default:
					if why == "" {
						why = sprintf("after %v the accept loop did not end when the listener was closed", seq)
					}
				}
			})
			r.Transition(6)
			r.Eval(1)
			key := sprintf("close-error N=%d %v", N, seq)
			r.State(key)
			r.Nontrivial(key)
			if why != "" {
				r.Violation("C15:close-error-stops-serving", why, map[string]any{"N": N, "arrivals": seq})
			} else {
				r.Outcome("close-error-tolerated")
			}
		}
	}
	// whitelist spec x source address grid
	specs := []string{"127.0.0.5", "127.0.0.5-127.0.0.9", "127.0.0.5-127.0.0.5", "127.0.0.0/8", "127.0.0.0/24", "127.0.0.77/24", "127.0.0.4/30", "127.0.0.4/31", "127.0.0.4/32",
		"127.0.0.0/255.255.255.0", "127.0.0.8/255.255.255.252", "127.1.2.3/16", "127.0.0.0-127.255.255.255", "::1", "::1/128", "::/127", "::1-::2", "::ffff:127.0.0.5", "0.0.0.0/0", "::/0", "10.0.0.0/8"}
	srcs := []string{"127.0.0.0", "127.0.0.1", "127.0.0.3", "127.0.0.4", "127.0.0.5", "127.0.0.6", "127.0.0.7", "127.0.0.8", "127.0.0.9", "127.0.0.10", "127.0.0.11", "127.0.0.12", "127.0.0.254", "127.0.0.255", "127.0.1.0",
		"127.1.2.3", "127.1.0.0", "127.1.255.255", "127.255.255.254", "127.255.255.255", "::1", "::", "::2", "::ffff:127.0.0.5", "10.1.2.3"}
	gi := 0
	for _, spec := range specs {
		rng, err := iprange.ParseIPRange(spec)
		if err != nil {
			r.Violation("C15:grid-spec-rejected", "whitelist spec "+spec+" rejected: "+err.Error(), nil)
			continue
		}
		ref, ok := refParse(spec)
		if !ok {
			continue
		}
		for _, src := range srcs {
			a := netip.MustParseAddr(src)
			want := ref.contains(addrInt(a))
			var forms []net.IP
			if a.Is4() {
				b := a.As4()
				forms = []net.IP{net.IP(b[:]), net.IPv4(b[0], b[1], b[2], b[3])}
			} else {
				b := a.As16()
				forms = []net.IP{net.IP(b[:])}
			}
			for fi, ip := range forms {
				gi++
				if !r.Mine(gi) {
					continue
				}
				var got, closed bool
				var n int
				synctest.Test(t, func(t *testing.T) {
					s := startSrv(SrvOpts{Root: w.Root, LnWrap: c15Wrap(2, rng)})
					c := s.Dial(&net.TCPAddr{IP: ip, Port: 40000})
					resp, cl := s.Exchange(c, mkReq(opStatFile, "/").Encode())
					n, closed = len(resp), cl
					got = len(resp) == szStat && !cl
					s.Shutdown()
				})
				r.Transition(1)
				k := sprintf("grid|%s|%s|%d", spec, src, fi)
				r.State(k)
				if want != got || (!want && (n != 0 || !closed)) {
					r.Outcome("grid-mismatch")
					r.Violation("C15:grid:"+map[bool]string{true: "whitelisted-not-served", false: "outsider-served"}[want], sprintf("whitelist %q, client %s (ip form len %d): reference member=%v, served=%v (response bytes %d, closed %v)", spec, src, len(ip), want, got, n, closed), map[string]any{"whitelist": spec, "source": src})
				} else if want {
					r.Outcome("grid-served")
				} else {
					r.Outcome("grid-rejected")
				}
			}
		}
	}
	// the real binary with both settings (the wiring in cmd/): outsider closed without an answer, insider served,
	// at most N served at a time, slot recovers
	if r.Shard == 0 && binPath() != "" {
		logDir := binLogDir("C15")
		must(os.MkdirAll(logDir, 0o755))
		for _, N := range []int{1, 2} {
			b, err := startBin([]string{"server", "--listen-addr=127.0.0.1:0", "--root=" + w.Root, "--client-whitelist=127.0.0.2-127.0.0.3", sprintf("--max-clients=%d", N)}, cleanEnv(logDir), w.Dir, filepath.Join(logDir, "server.log"), 30*time.Second)
			if err != nil {
				r.HarnessError("cannot start the real binary: " + err.Error())
				break
			}
			r.Trace(1)
			fail := func(sig, msg string) {
				r.Violation("C15:bin:"+sig, sprintf("real binary with --client-whitelist=127.0.0.2-127.0.0.3 --max-clients=%d: %s", N, msg), map[string]any{"N": N})
			}
			// outsider: no answer (positive observation: an answer is a violation; silence/close is fine)
			if c, err := dialFrom(b.Addr, "127.0.0.1", 10*time.Second); err == nil {
				if ok, _, _ := c.statProbe("/", 3*time.Second); ok {
					fail("outsider-served", "a client from 127.0.0.1 (outside the whitelist) was answered")
				}
				c.Close()
			}
			// insiders: N of them are served concurrently, the (N+1)th is answered only after one leaves
			var held []*tcpClient
			for k := 0; k < N; k++ {
				c, err := dialFrom(b.Addr, "127.0.0.2", 10*time.Second)
				if err != nil {
					fail("insider-refused", "whitelisted client could not connect: "+err.Error())
					break
				}
				held = append(held, c)
				if ok, _, _ := c.statProbe("/", 30*time.Second); !ok {
					fail("insider-not-served", sprintf("whitelisted client %d of %d was not answered within 30 s", k+1, N))
				}
			}
			extra, err := dialFrom(b.Addr, "127.0.0.3", 10*time.Second)
			if err == nil {
				if ok, _, _ := extra.statProbe("/", 2*time.Second); ok {
					fail("limit-exceeded", sprintf("client %d was answered while %d others are still being served", N+1, N))
				} else if len(held) > 0 {
					held[0].Close()
					held = held[1:]
					if resp, err := extra.readN(szStat, 30*time.Second); err != nil || len(resp) != szStat {
						fail("capacity-lost", "after one client left, the waiting client was not answered within 30 s")
					}
				}
				extra.Close()
			}
			for _, c := range held {
				c.Close()
			}
			b.Stop()
			r.Outcome("bin-admission-ok")
		}
		// accept(2) failing for lack of descriptors while a client limit is set: the failed attempts must not use up
		// slots. The descriptor limit is raised one by one until the first client's connection and file just fit and
		// the second client's accept fails; then the first leaves and both slots must be usable again.
		w.File("held.bin", 3000, 9)
		reached := false
		for n := 6; n <= 24 && !reached; n++ {
			b, err := startBinLimited([]string{"server", "--listen-addr=127.0.0.1:0", "--root=" + w.Root, "--max-clients=2", "--read-timeout=5m"}, cleanEnv(logDir), w.Dir, filepath.Join(logDir, "server.log"), 5*time.Second, n)
			if err != nil {
				if b != nil {
					b.Stop()
				}
				continue // too few descriptors to start at all
			}
			func() {
				defer b.Stop()
				c1, err := dialFrom(b.Addr, "", 5*time.Second)
				if err != nil {
					return
				}
				defer c1.Close()
				if ok, _, _ := c1.statProbe("/", 2*time.Second); !ok {
					return
				}
				if resp, err := c1.exchange(mkReq(opOpenFile, "/held.bin"), szOpenFile, 5*time.Second); err != nil || int64(be64(resp)) != 3000 {
					return // the table is already full: one more descriptor is needed for the scenario
				}
				c1.exchange(mkReq(opOpenDir, "/"), 4, 5*time.Second)
				c2, err := dialFrom(b.Addr, "", 5*time.Second)
				if err != nil {
					return
				}
				defer c2.Close()
				if ok, _, _ := c2.statProbe("/", 700*time.Millisecond); ok {
					return // still room in the table
				}
				for try := 0; try < 20 && !strings.Contains(b.Log(), "Accept failed"); try++ {
					time.Sleep(100 * time.Millisecond)
				}
				if !strings.Contains(b.Log(), "Accept failed") {
					return
				}
				reached = true
				r.Trace(1)
				r.State(sprintf("real binary: accept fails for lack of descriptors (limit %d) with --max-clients=2", n))
				fail := func(sig, msg string) {
					r.Violation("C15:bin:accept-errors:"+sig, sprintf("real binary with --max-clients=2 and %d descriptors, after accept(2) failed repeatedly while the first client held the last descriptors: %s | %s", n, msg, lastLines(b.Log(), 3)), map[string]any{"descriptors": n})
				}
				time.Sleep(1500 * time.Millisecond) // several failed attempts
				c1.Close()
				if resp, err := c2.readN(szStat, 30*time.Second); err != nil || len(resp) != szStat {
					fail("capacity-lost", "the first client left, the waiting client was not answered within 30 s")
					return
				}
				c3, err := dialFrom(b.Addr, "", 5*time.Second)
				if err != nil {
					fail("refused", "third client could not connect: "+err.Error())
					return
				}
				defer c3.Close()
				if ok, _, _ := c3.statProbe("/", 30*time.Second); !ok {
					fail("capacity-lost", "with one client being served, a second one was not answered within 30 s although the limit is 2")
					return
				}
				c4, err := dialFrom(b.Addr, "", 5*time.Second)
				if err == nil {
					defer c4.Close()
					if ok, _, _ := c4.statProbe("/", 2*time.Second); ok {
						fail("limit-exceeded", "a third client was answered while two others are being served")
						return
					}
					c2.Close()
					if resp, err := c4.readN(szStat, 30*time.Second); err != nil || len(resp) != szStat {
						fail("capacity-lost", "after one of two clients left, the waiting client was not answered within 30 s")
						return
					}
				}
				r.Outcome("bin-accept-errors-keep-capacity")
			}()
		}
		if !reached {
			r.Outcome("bin-accept-errors-not-reached")
		}
		// transfers that end badly (the client resets the connection in the middle of a large answer) must not use up
		// anything the limit depends on: after 2N of them N new clients are served - including a file read - at once
		if f, err := os.Create(filepath.Join(w.Root, "large.bin")); err == nil {
			f.Truncate(512 << 20)
			f.Close()
			for _, N := range []int{1, 2} {
				b, err := startBin([]string{"server", "--listen-addr=127.0.0.1:0", "--root=" + w.Root, sprintf("--max-clients=%d", N), "--read-timeout=5m"}, cleanEnv(logDir), w.Dir, filepath.Join(logDir, "server.log"), 30*time.Second)
				if err != nil {
					r.HarnessError("cannot start the real binary: " + err.Error())
					break
				}
				r.Trace(1)
				r.State(sprintf("real binary: aborted transfers with --max-clients=%d", N))
				for k := 0; k < 2*N; k++ {
					c, err := dialFrom(b.Addr, "", 10*time.Second)
					if err != nil {
						break
					}
					c.exchange(mkReq(opOpenFile, "/large.bin"), szOpenFile, 30*time.Second)
					crit := rdcReq(0, 400<<20)
					if k%2 == 1 {
						crit = rdReq(0, 400<<20)
					}
					c.c.Write(crit.Encode())
					c.readN(100000, 30*time.Second)
					if tc, ok := c.c.(*net.TCPConn); ok {
						tc.SetLinger(0) // reset instead of an orderly close
					}
					c.Close()
					time.Sleep(100 * time.Millisecond)
				}
				var cs []*tcpClient
				okAll := true
				why := ""
				for k := 0; k < N && okAll; k++ {
					c, err := dialFrom(b.Addr, "", 10*time.Second)
					if err != nil {
						okAll, why = false, "cannot connect: "+err.Error()
						break
					}
					cs = append(cs, c)
					if ok, _, _ := c.statProbe("/", 30*time.Second); !ok {
						okAll, why = false, sprintf("client %d of %d was not answered within 30 s", k+1, N)
						break
					}
					if resp, err := c.exchange(mkReq(opOpenFile, "/held.bin"), szOpenFile, 30*time.Second); err != nil || int64(be64(resp)) != 3000 {
						okAll, why = false, sprintf("client %d of %d: open of a small file not answered", k+1, N)
						break
					}
					if resp, err := c.exchange(rdReq(0, 3000), 4+3000, 30*time.Second); err != nil || len(resp) != 3004 {
						okAll, why = false, sprintf("client %d of %d: a 3000-byte read was not answered within 30 s (%d bytes)", k+1, N, len(resp))
						break
					}
				}
				for _, c := range cs {
					c.Close()
				}
				if !okAll {
					r.Outcome("bin-aborted-transfers-lose-capacity")
					r.Violation("C15:bin:aborted-transfers:capacity-lost", sprintf("real binary with --max-clients=%d after %d transfers that the client reset half-way: %s | %s", N, 2*N, why, lastLines(b.Log(), 3)), map[string]any{"N": N})
				} else {
					r.Outcome("bin-aborted-transfers-keep-capacity")
				}
				b.Stop()
			}
			os.Remove(filepath.Join(w.Root, "large.bin"))
		}
		os.RemoveAll(logDir)
	}
	r.Assume("listener wrappers are composed in the harness in the same order as cmd/ps3netsrv-go/server.go; the wiring of the real binary is exercised by the binary probes (C19)")
}
