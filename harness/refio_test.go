package verifh

import (
	"bytes"
	"errors"
	"fmt"
	"io"
)

// Generic differential driver: a view (Read/Seek/ReadAt) against a reference byte string with
// bytes.Reader semantics. Used for decrypting views (C10/C11) and generated images (C09).

type rsra interface {
	io.Reader
	io.Seeker
	io.ReaderAt
}

type ioOp struct {
	Kind   string `json:"k"` // read | readat | seek
	N      int    `json:"n,omitempty"`
	Off    int64  `json:"off,omitempty"`
	Whence int    `json:"w,omitempty"`
}

func (o ioOp) String() string {
	switch o.Kind {
	case "read":
		return fmt.Sprintf("Read(%d)", o.N)
	case "readat":
		return fmt.Sprintf("ReadAt(%d,@%d)", o.N, o.Off)
	}
	return fmt.Sprintf("Seek(%d,%d)", o.Off, o.Whence)
}

type ioState struct {
	cur int64
}

// applyOp performs op on view and checks it against ref. Returns ("", class) or a violation text. Panics are caught.
func applyOp(view rsra, ref []byte, st *ioState, op ioOp, mask func(off int64, b []byte)) (why string, class string) {
	defer func() {
		if p := recover(); p != nil {
			why, class = fmt.Sprintf("%s at cursor %d panicked: %v", op, st.cur, p), "panic"
		}
	}()
	size := int64(len(ref))
	cmp := func(off int64, got []byte) string {
		want := ref[off : off+int64(len(got))]
		if mask != nil {
			got = append([]byte{}, got...)
			want = append([]byte{}, want...)
			mask(off, got)
			mask(off, want)
		}
		if !bytes.Equal(got, want) {
			return describeDiff(got, want)
		}
		return ""
	}
	switch op.Kind {
	case "read":
		buf := make([]byte, op.N+8)
		for i := range buf {
			buf[i] = 0xA5
		}
		n, err := view.Read(buf[:op.N])
		for i := op.N; i < len(buf); i++ {
			if buf[i] != 0xA5 {
				return fmt.Sprintf("%s at %d wrote beyond the buffer", op, st.cur), "overrun"
			}
		}
		if n < 0 || n > op.N {
			return fmt.Sprintf("%s at %d returned n=%d", op, st.cur, n), "bad-count"
		}
		avail := size - st.cur
		if avail <= 0 {
			if n != 0 || !errors.Is(err, io.EOF) {
				return fmt.Sprintf("%s at cursor %d (size %d): want (0, EOF), got (%d, %v)", op, st.cur, size, n, err), "eof-expected"
			}
			return "", "read-eof"
		}
		if op.N == 0 {
			if n != 0 {
				return fmt.Sprintf("%s returned n=%d", op, n), "bad-count"
			}
			return "", "read-zero"
		}
		if int64(n) > avail {
			return fmt.Sprintf("%s at cursor %d (size %d) returned %d bytes, only %d remain", op, st.cur, size, n, avail), "beyond-size"
		}
		if n == 0 {
			return fmt.Sprintf("%s at cursor %d (size %d) made no progress: (0, %v)", op, st.cur, size, err), "no-progress"
		}
		if err != nil && !(errors.Is(err, io.EOF) && st.cur+int64(n) == size) {
			return fmt.Sprintf("%s at cursor %d returned %d bytes with error %v", op, st.cur, n, err), "error-with-data"
		}
		if d := cmp(st.cur, buf[:n]); d != "" {
			return fmt.Sprintf("%s at cursor %d: %s", op, st.cur, d), "wrong-bytes"
		}
		st.cur += int64(n)
		if n < op.N && int64(n) < avail {
			return "", "read-short"
		}
		return "", "read-ok"
	case "readat":
		buf := make([]byte, op.N)
		for i := range buf {
			buf[i] = 0x5A // a reused, dirty buffer: bytes the view claims to have produced must really be written
		}
		n, err := view.ReadAt(buf, op.Off)
		if op.Off < 0 {
			if err == nil {
				return fmt.Sprintf("%s: negative offset accepted", op), "neg-offset"
			}
			return "", "readat-neg"
		}
		want := size - op.Off
		if want < 0 {
			want = 0
		}
		if want > int64(op.N) {
			want = int64(op.N)
		}
		if int64(n) != want {
			return fmt.Sprintf("%s (size %d) returned %d bytes (err %v), want %d", op, size, n, err, want), "readat-count"
		}
		if n < op.N && err == nil {
			return fmt.Sprintf("%s returned %d < %d bytes without error", op, n, op.N), "readat-noerr"
		}
		if n == op.N && err != nil && !errors.Is(err, io.EOF) {
			return fmt.Sprintf("%s returned full data with error %v", op, err), "readat-err"
		}
		if n > 0 {
			if d := cmp(op.Off, buf[:n]); d != "" {
				return fmt.Sprintf("%s: %s", op, d), "wrong-bytes"
			}
		}
		if int64(n) < int64(op.N) {
			return "", "readat-eof"
		}
		return "", "readat-ok"
	case "seek":
		var want int64
		switch op.Whence {
		case io.SeekStart:
			want = op.Off
		case io.SeekCurrent:
			want = st.cur + op.Off
		case io.SeekEnd:
			want = size + op.Off
		}
		got, err := view.Seek(op.Off, op.Whence)
		if want < 0 {
			if err == nil {
				return fmt.Sprintf("%s from cursor %d: negative position accepted (returned %d)", op, st.cur, got), "seek-neg"
			}
			return "", "seek-neg-refused"
		}
		if err != nil {
			return fmt.Sprintf("%s from cursor %d (size %d): error %v, want position %d", op, st.cur, size, err, want), "seek-error"
		}
		if got != want {
			return fmt.Sprintf("%s from cursor %d (size %d): returned %d, want %d", op, st.cur, size, got, want), "seek-pos"
		}
		st.cur = want
		return "", "seek-ok"
	}
	return "bad op", "harness"
}
