package verifh

import (
	"errors"
	"io"
	"net"
	"os"
	"sync"
	"syscall"
	"time"
)

// vnet: a deterministic in-memory model of a TCP connection and listener.
// The server side implements net.Conn; the client side is driven by the harness (script), never by a goroutine
// of its own. Blocking is done on channels/timers only, so inside a synctest bubble every wait is durable and the
// virtual clock applies to deadlines.

type vAddr struct{ s string }

func (a vAddr) Network() string { return "tcp" }
func (a vAddr) String() string  { return a.s }

type Conn struct {
	mu sync.Mutex

	id     int
	remote net.Addr
	local  net.Addr

	in       []byte // client -> server, not yet consumed
	inEOF    bool   // client half-closed (FIN)
	inErr    error  // RST: reads and writes fail
	consumed int64  // bytes the server took from in
	maxRead  int    // >0: server Read returns at most this many bytes (short socket reads)

	out       []byte // server -> client
	outTotal  int64
	outErr    error // writes fail with this (client gone / write error)
	outFailAt int64 // >=0: writes fail once outTotal would exceed this many bytes
	outCap    int   // >0: send buffer size - Write blocks while this many bytes wait to be taken by the client

	closed      bool  // server called Close
	closeErr    error // Close still closes, but reports this error (e.g. ECONNRESET from close(2))
	closedAt    time.Time
	closeUnread int
	nClose      int

	rdDeadline time.Time
	wrDeadline time.Time
	wake       chan struct{} // cap 1: state changed
	wakeW      chan struct{} // cap 1: room in the send buffer / write deadline changed / closed

	firstRead   bool // server has called Read at least once (= it started serving this conn)
	firstReadAt time.Time
	readCalls   int
	writeCalls  int
	waitingRead bool // server currently blocked inside Read

	hook func(c *Conn, op string) // scheduling/fault hook, called before each Read/Write/Close (may be nil)
}

func newConn(id int, remote net.Addr) *Conn {
	return &Conn{id: id, remote: remote, local: &net.TCPAddr{IP: net.IPv4(127, 0, 0, 1), Port: 38008}, wake: make(chan struct{}, 1), wakeW: make(chan struct{}, 1), outFailAt: -1}
}

func (c *Conn) signal() {
	select {
	case c.wake <- struct{}{}:
	default:
	}
	select {
	case c.wakeW <- struct{}{}:
	default:
	}
}

// ---- server side (net.Conn) ----

func (c *Conn) Read(p []byte) (int, error) {
	if c.hook != nil {
		c.hook(c, "conn.Read")
	}
	for {
		c.mu.Lock()
		c.readCalls++
		if !c.firstRead {
			c.firstRead = true
			c.firstReadAt = time.Now()
		}
		if c.closed {
			c.mu.Unlock()
			return 0, net.ErrClosed
		}
		if len(p) == 0 {
			c.mu.Unlock()
			return 0, nil
		}
		if len(c.in) > 0 {
			n := len(p)
			if n > len(c.in) {
				n = len(c.in)
			}
			if c.maxRead > 0 && n > c.maxRead {
				n = c.maxRead
			}
			copy(p, c.in[:n])
			c.in = c.in[n:]
			c.consumed += int64(n)
			c.waitingRead = false
			c.mu.Unlock()
			return n, nil
		}
		if c.inErr != nil {
			err := c.inErr
			c.mu.Unlock()
			return 0, err
		}
		if c.inEOF {
			c.mu.Unlock()
			return 0, io.EOF
		}
		dl := c.rdDeadline
		var timer *time.Timer
		var tch <-chan time.Time
		if !dl.IsZero() {
			d := time.Until(dl)
			if d <= 0 {
				c.mu.Unlock()
				return 0, os.ErrDeadlineExceeded
			}
			timer = time.NewTimer(d)
			tch = timer.C
		}
		c.waitingRead = true
		c.mu.Unlock()
		select {
		case <-c.wake:
		case <-tch:
		}
		if timer != nil {
			timer.Stop()
		}
		c.mu.Lock()
		c.waitingRead = false
		c.mu.Unlock()
	}
}

func (c *Conn) Write(p []byte) (int, error) {
	if c.hook != nil {
		c.hook(c, "conn.Write")
	}
	written := 0
	first := true
	for {
		c.mu.Lock()
		if first {
			c.writeCalls++
			first = false
		}
		if c.closed {
			c.mu.Unlock()
			return written, net.ErrClosed
		}
		if c.inErr != nil {
			err := c.inErr
			c.mu.Unlock()
			return written, err
		}
		if c.outErr != nil {
			err := c.outErr
			c.mu.Unlock()
			return written, err
		}
		// like the runtime's poller: an expired write deadline fails the call even if the buffer has room
		if !c.wrDeadline.IsZero() && !time.Now().Before(c.wrDeadline) {
			c.mu.Unlock()
			return written, os.ErrDeadlineExceeded
		}
		room := len(p) - written
		if c.outCap > 0 && room > c.outCap-len(c.out) {
			room = c.outCap - len(c.out)
		}
		if room > 0 {
			chunk := p[written : written+room]
			if c.outFailAt >= 0 && c.outTotal+int64(len(chunk)) > c.outFailAt {
				n := int(c.outFailAt - c.outTotal)
				if n < 0 {
					n = 0
				}
				c.out = append(c.out, chunk[:n]...)
				c.outTotal += int64(n)
				c.outErr = syscall.EPIPE
				err := c.outErr
				c.mu.Unlock()
				return written + n, err
			}
			c.out = append(c.out, chunk...)
			c.outTotal += int64(len(chunk))
			written += room
		}
		if written == len(p) {
			c.mu.Unlock()
			return written, nil
		}
		// send buffer full: wait for the client to take bytes, for the write deadline, or for a close
		var timer *time.Timer
		var tch <-chan time.Time
		if !c.wrDeadline.IsZero() {
			timer = time.NewTimer(time.Until(c.wrDeadline))
			tch = timer.C
		}
		c.mu.Unlock()
		select {
		case <-c.wakeW:
		case <-tch:
		}
		if timer != nil {
			timer.Stop()
		}
	}
}

func (c *Conn) Close() error {
	if c.hook != nil {
		c.hook(c, "conn.Close")
	}
	c.mu.Lock()
	defer c.mu.Unlock()
	c.nClose++
	if c.closed {
		return net.ErrClosed
	}
	c.closed = true
	c.closedAt = time.Now()
	c.closeUnread = len(c.in)
	c.signal()
	return c.closeErr
}

func (c *Conn) LocalAddr() net.Addr  { return c.local }
func (c *Conn) RemoteAddr() net.Addr { return c.remote }
func (c *Conn) SetDeadline(t time.Time) error {
	c.SetWriteDeadline(t)
	return c.SetReadDeadline(t)
}
func (c *Conn) SetReadDeadline(t time.Time) error {
	c.mu.Lock()
	defer c.mu.Unlock()
	if c.closed {
		return net.ErrClosed
	}
	c.rdDeadline = t
	c.signal()
	return nil
}
func (c *Conn) SetWriteDeadline(t time.Time) error {
	c.mu.Lock()
	defer c.mu.Unlock()
	if c.closed {
		return net.ErrClosed
	}
	c.wrDeadline = t
	c.signal()
	return nil
}

// ---- client side (harness) ----

// Send delivers bytes to the server's receive queue.
func (c *Conn) Send(b []byte) {
	c.mu.Lock()
	c.in = append(c.in, b...)
	c.signal()
	c.mu.Unlock()
}

// Fin half-closes the client side: after the queued bytes the server reads EOF.
func (c *Conn) Fin() {
	c.mu.Lock()
	c.inEOF = true
	c.signal()
	c.mu.Unlock()
}

// Rst resets the connection: queued bytes are dropped, reads and writes fail.
func (c *Conn) Rst() {
	c.mu.Lock()
	c.in = nil
	c.inErr = syscall.ECONNRESET
	c.signal()
	c.mu.Unlock()
}

// Take returns and clears everything the server wrote so far.
func (c *Conn) Take() []byte {
	c.mu.Lock()
	b := c.out
	c.out = nil
	c.signal()
	c.mu.Unlock()
	return b
}

// Peek returns a copy of what the server wrote so far without consuming it.
func (c *Conn) Peek() []byte {
	c.mu.Lock()
	defer c.mu.Unlock()
	return append([]byte{}, c.out...)
}

// TakeN removes at most n bytes the server wrote (a client draining slowly).
func (c *Conn) TakeN(n int) []byte {
	c.mu.Lock()
	defer c.mu.Unlock()
	if n > len(c.out) {
		n = len(c.out)
	}
	b := append([]byte{}, c.out[:n]...)
	c.out = c.out[n:]
	c.signal()
	return b
}

func (c *Conn) ServerClosed() bool { c.mu.Lock(); defer c.mu.Unlock(); return c.closed }
func (c *Conn) Consumed() int64    { c.mu.Lock(); defer c.mu.Unlock(); return c.consumed }
func (c *Conn) Pending() int       { c.mu.Lock(); defer c.mu.Unlock(); return len(c.in) }
func (c *Conn) Started() bool      { c.mu.Lock(); defer c.mu.Unlock(); return c.firstRead }
func (c *Conn) ClosedAt() time.Time {
	c.mu.Lock()
	defer c.mu.Unlock()
	return c.closedAt
}
func (c *Conn) OutTotal() int64 { c.mu.Lock(); defer c.mu.Unlock(); return c.outTotal }

// ---- listener ----

type Listener struct {
	mu      sync.Mutex
	queue   []*Conn
	wake    chan struct{}
	closed  bool
	nextID  int
	accepts int
	hook    func(op string)
	// acceptErrs: errors the next Accept calls report before looking at the queue (descriptor table full, connection
	// reset before it was accepted, ...): a listener stays usable after them
	acceptErrs []error
}

func newListener() *Listener { return &Listener{wake: make(chan struct{}, 1)} }

func (l *Listener) Accept() (net.Conn, error) {
	if l.hook != nil {
		l.hook("ln.Accept")
	}
	for {
		l.mu.Lock()
		if l.closed {
			l.mu.Unlock()
			return nil, net.ErrClosed
		}
		if len(l.acceptErrs) > 0 {
			err := l.acceptErrs[0]
			l.acceptErrs = l.acceptErrs[1:]
			l.mu.Unlock()
			return nil, err
		}
		if len(l.queue) > 0 {
			c := l.queue[0]
			l.queue = l.queue[1:]
			l.accepts++
			l.mu.Unlock()
			return c, nil
		}
		l.mu.Unlock()
		<-l.wake
	}
}

func (l *Listener) Close() error {
	l.mu.Lock()
	defer l.mu.Unlock()
	if l.closed {
		return net.ErrClosed
	}
	l.closed = true
	select {
	case l.wake <- struct{}{}:
	default:
	}
	return nil
}

func (l *Listener) Addr() net.Addr { return &net.TCPAddr{IP: net.IPv4(127, 0, 0, 1), Port: 38008} }

// Dial enqueues a new connection from the given remote address (nil = 127.0.0.1:40000+id).
func (l *Listener) Dial(remote net.Addr) *Conn {
	l.mu.Lock()
	id := l.nextID
	l.nextID++
	if remote == nil {
		remote = &net.TCPAddr{IP: net.IPv4(127, 0, 0, 1), Port: 40000 + id}
	}
	c := newConn(id, remote)
	l.queue = append(l.queue, c)
	select {
	case l.wake <- struct{}{}:
	default:
	}
	l.mu.Unlock()
	return c
}

func (l *Listener) Backlog() int { l.mu.Lock(); defer l.mu.Unlock(); return len(l.queue) }

var errInjected = errors.New("injected I/O error")

// tempAcceptErr is what accept(2) failing with EMFILE / ENFILE / ECONNABORTED looks like through the net package.
func tempAcceptErr(errno syscall.Errno) error {
	return &net.OpError{Op: "accept", Net: "tcp", Addr: &net.TCPAddr{IP: net.IPv4(127, 0, 0, 1), Port: 38008}, Err: os.NewSyscallError("accept4", errno)}
}

// FailAccepts makes the next n Accept calls fail with err and wakes the accept loop.
func (l *Listener) FailAccepts(n int, err error) {
	l.mu.Lock()
	for i := 0; i < n; i++ {
		l.acceptErrs = append(l.acceptErrs, err)
	}
	l.mu.Unlock()
	select {
	case l.wake <- struct{}{}:
	default:
	}
}
