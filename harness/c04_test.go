package verifh

import (
	"encoding/binary"
	"io"
	"net"
	"runtime"
	"syscall"

	"github.com/spf13/afero"

	"encoding/hex"
	"os"
	"path/filepath"
	"strings"
	"testing"
	"testing/synctest"
	"time"
)

// C04: no client input and no on-disk content can crash the server (or the offline tools).
// Every case is announced to the driver before it runs: a panic in a server goroutine kills the worker process,
// the driver attributes the death to the announced case and restarts the worker after it. A hang is caught by the
// reporter's watchdog.

// hostileSession runs reqs on one connection, then probes liveness on a second connection of the same server.
func hostileSession(t *testing.T, root string, allow bool, reqs []Req) (why string, steps []StepObs) {
	synctest.Test(t, func(t *testing.T) {
		// handle ledger below BasePathFs: a descriptor leaked per hostile request ends in "too many open files",
		// i.e. the server stops accepting
		leaf := newVFs(afero.NewOsFs(), "leaf")
		leaf.record = false
		s := startSrv(SrvOpts{Root: root, AllowWrite: allow, LeafWrap: func(afero.Fs) afero.Fs { return leaf }})
		// a bystander that opened a file before the hostile client arrived and goes on reading afterwards
		by := s.Dial(nil)
		bm := newModel(root, false)
		for _, rq := range []Req{mkReq(opOpenFile, "/plain/f65537.bin"), rdReq(10, 1000)} {
			resp, cl := s.Exchange(by, rq.Encode())
			if w, _ := bm.Check(rq, resp, cl); w != "" && why == "" {
				why = "bystander connection before the hostile session: " + w
			}
		}
		c := s.Dial(nil)
		synctest.Wait()
		for _, rq := range reqs {
			resp, closed := s.Exchange(c, rq.Encode())
			steps = append(steps, StepObs{Req: rq.String(), Resp: hexHead(resp), Closed: closed})
			if closed {
				break
			}
		}
		for _, rq := range []Req{rdReq(65000, 1000), rdcReq(0, 65537), mkReq(opStatFile, "/plain")} {
			resp, cl := s.Exchange(by, rq.Encode())
			if w, _ := bm.Check(rq, resp, cl); w != "" && why == "" {
				why = "a bystander connection (file opened before the hostile session) was disturbed: " + w
			}
		}
		p := s.Dial(nil)
		pr, pclosed := s.Exchange(p, mkReq(opStatFile, "/").Encode())
		if len(pr) != szStat || pclosed || int64(be64(pr)) != 0 || pr[32] != 1 {
			why = sprintf("after the session a fresh connection is not served (closed=%v resp=%s)", pclosed, hexHead(pr))
		}
		s.Shutdown()
		select {
		case <-s.done:
		default:
			if why == "" {
				why = "accept loop did not end after listener close"
			}
		}
		if l := leaf.Outstanding(); len(l) > 0 && why == "" {
			why = sprintf("descriptor leak: after all connections ended %d file handle(s) are still open (%v); repeated, the server runs out of descriptors and stops accepting", len(l), l)
		}
	})
	return
}

func c04World(t testing.TB, r *Reporter) *World {
	w, _ := buildC02World(t, r)
	w.MkDir("nosfo/PS3_GAME")
	w.File("nosfo/x.bin", 10, 1)
	w.File(strings.Repeat("L", 40)+"/f.bin", 10, 1)
	mkCDImage(w.Root, cdImg{name: "cd.bin", sector: 2336, sig: "psx", size: 0x200000}, 3)
	w.MkDir("w")
	w.File("deep/a/b/c/d.bin", 5, 1)
	return w
}

func c04Alphabet() []Req {
	var a []Req
	for _, p := range []string{"/***DVD***/game", "/***PS3***/game", "/***PS3***/nosfo", "/***DVD***/" + strings.Repeat("L", 40), "/***DVD***/deep/a/b", "/***DVD***/", "/***DVD***", "/***PS3***/game/a.bin",
		"/PS3ISO/r.iso", "/k3/e.iso", "/k3/d.iso", "/cd.bin", "/plain/f2049.bin", "/plain", "/nope", "/***DVD***/nope", "/CLOSEFILE"} {
		a = append(a, mkReq(opOpenFile, p))
	}
	for _, off := range []uint64{0, 1, 511, 2047, 2049, 0xF71, 24575, 24576, 24577, 1<<31 - 1, 1 << 40, 1 << 63, 1<<64 - 1} {
		for _, n := range []uint32{0, 1, 513, 2049, 65537} {
			if off > 30000 && n != 513 && n != 0 {
				continue
			}
			a = append(a, rdReq(off, n), rdcReq(off, n))
		}
	}
	a = append(a, rdReq(0, 1<<31-1), rdcReq(0, 1<<31-1))
	for _, sc := range [][2]uint32{{0, 1}, {0, 0}, {1 << 31, 1}, {0xFFFFFFFF, 2}, {0, 0xFFFFFFFF}, {895, 3}, {0xFFFFFFFF, 0xFFFFFFFF}} {
		a = append(a, cdReq(sc[0], sc[1]))
	}
	for _, p := range []string{"/***DVD***/game", "/***PS3***/deep/a", "/plain/f1.bin", "/plain", "/***DVD***/"} {
		a = append(a, mkReq(opOpenDir, p), mkReq(opStatFile, p), mkReq(opGetDirSize, p))
	}
	a = append(a, noargReq(opReadDirEntry), noargReq(opReadDirEntryV2), noargReq(opReadDir))
	for _, p := range []string{"/***DVD***/game", "/***DVD***/game/new", "/w/x", "/PS3ISO/r.iso"} {
		a = append(a, mkReq(opCreateFile, p), mkReq(opDeleteFile, p), mkReq(opMkdir, p), mkReq(opRmdir, p))
	}
	a = append(a, wrReq([]byte("abc")), Req{Op: 0xFFFF}, Req{Op: 0}, rawReq([]byte{0x12, 0x30, 0xff, 0xff, 0, 0, 0, 0, 0, 0, 0, 0, 0, 0, 0, 0}))
	return a
}

func TestC04(t *testing.T) {
	r := NewReporter(t)
	defer r.Done()
	r.Rule("(a) all request sequences of length <= depth over a hostile alphabet (unaligned / huge offsets and limits, sector reads with huge start/count, listing and mutation on virtual paths and non-directories, unknown opcodes) and all sequences of length 3-4 over 12 state-carrying requests, against a world with generated images, redump + key, 3k3y, CD image; (b) on-disk content: every PARAM.SFO header/index field set to each boundary value, every truncation, TITLE_ID lengths 0..40; region tables with hostile counts and borders; key files of every length 0..40 and non-hex; 3k3y area x file lengths; (c) name families, directories with unresolvable links (loop, mutual, through a file, dangling), a cycle through the parent and names that are not valid UTF-8; each followed by a liveness probe; (e) Accept failing with EMFILE/ENFILE, bounded descriptor use for a 300-file image, bounded memory for a 768 MiB ordinary read (and 2^31-1 bytes against the real binary with 3 GB of address space), the real binary with 64 descriptors under 100 simultaneous clients and under a client walking through a 200-file image; (d) the same artefacts through make-iso / decrypt; oracle: worker process alive, fresh connection served, no hang, tools exit without a Go panic; distinct by case; (c') the real process started over roots with 4100 entries, a crowded subdirectory, link loops / dangling links / a FIFO / an inaccessible directory / an undecodable name, 200 nested directories, nothing at all - alive and answering two seconds after it began to listen")
	w := c04World(t, r)
	defer w.Cleanup()
	alpha := c04Alphabet()
	depth := 2
	if r.Thorough() {
		depth = 3
	}
	r.Extra("alphabet", len(alpha))
	r.Extra("depth", depth)
	idx := 0
	runCase := func(sig, desc string, allow bool, reqs []Req) {
		r.Begin(idx, sig, desc)
		why, steps := hostileSession(t, w.Root, allow, reqs)
		r.Transition(int64(len(steps)) + 1)
		r.Eval(1)
		r.State(desc)
		r.Nontrivial(desc)
		for _, st := range steps {
			if st.Closed {
				r.Outcome("connection-closed")
			} else {
				r.Outcome("answered")
			}
		}
		if why != "" {
			r.Violation(sig+":liveness", desc+": "+why, map[string]any{"requests": reqs, "steps": steps})
		}
	}
	// the real process: a slice of the hostile sequences is also sent to the real binary over TCP; the process must
	// stay alive and keep answering
	var bin *BinSrv
	if binPath() != "" {
		logDir := binLogDir("C04")
		must(os.MkdirAll(logDir, 0o755))
		b, err := startBin([]string{"server", "--listen-addr=127.0.0.1:0", "--root=" + w.Root, "--allow-write"}, cleanEnv(logDir), w.Dir, filepath.Join(logDir, "server.log"), 30*time.Second)
		if err != nil {
			r.HarnessError("cannot start the real binary: " + err.Error())
			return
		}
		bin = b
		defer os.RemoveAll(logDir)
		defer bin.Stop()
	}
	binSession := func(desc string, reqs []Req) {
		if bin == nil {
			return
		}
		c, err := dialFrom(bin.Addr, "", 20*time.Second)
		if err == nil {
			for _, rq := range reqs {
				if rq.Op == opReadFile || rq.Op == opReadFileCritical {
					if rq.Limit > 1<<20 {
						continue // a 2 GiB critical read is legal but would only measure loopback throughput
					}
				}
				c.c.SetDeadline(time.Now().Add(20 * time.Second))
				if _, err := c.c.Write(rq.Encode()); err != nil {
					break
				}
				buf := make([]byte, 1<<16)
				c.c.SetReadDeadline(time.Now().Add(30 * time.Millisecond))
				for {
					if _, err := c.c.Read(buf); err != nil {
						break
					}
					c.c.SetReadDeadline(time.Now().Add(30 * time.Millisecond))
				}
			}
			c.Close()
		}
		r.Trace(1)
		p, err := dialFrom(bin.Addr, "", 20*time.Second)
		alive := false
		if err == nil {
			ok, ex, _ := p.statProbe("/", 20*time.Second)
			alive = ok && ex
			p.Close()
		}
		if !alive || bin.Exited() {
			r.Violation("C04:real-binary-died", sprintf("after the session [%s] the real server process no longer serves (exited=%v): %s", desc, bin.Exited(), lastLines(bin.Log(), 6)), map[string]any{"requests": reqs})
			bin.Stop()
			bin = nil
		}
	}
	// (a) hostile request sequences
	n := len(alpha)
	total := 1
	for i := 0; i < depth; i++ {
		total *= n
	}
	for k := 0; k < total; k++ {
		idx++
		if !r.Mine(idx) {
			continue
		}
		if k%256 == 0 && r.TimeUp() {
			break
		}
		seq := make([]Req, depth)
		x := k
		for j := depth - 1; j >= 0; j-- {
			seq[j] = alpha[x%n]
			x /= n
		}
		mut := false
		for _, q := range seq {
			if isMutating(q) {
				mut = true
			}
		}
		if mut {
			os.RemoveAll(filepath.Join(w.Root, "w"))
			w.MkDir("w")
		}
		runCase("C04:requests", strings.Join(reqStrings(seq), " ; "), true, seq)
		if (k+int(r.Seed))%97 == 0 {
			binSession(strings.Join(reqStrings(seq), " ; "), seq)
		}
	}
	// (a') per-connection state carried from one request to the next: all sequences of length 3 and 4 over the
	// requests that set, clear or use it (successful, refused and virtual opens, CLOSEFILE, sector / critical /
	// ordinary reads, directory open and enumeration)
	stateAlpha := []Req{mkReq(opOpenFile, "/cd.bin"), mkReq(opOpenFile, "/plain/f2049.bin"), mkReq(opOpenFile, "/nope"), mkReq(opOpenFile, "/***PS3***/nosfo"), mkReq(opOpenFile, "/***DVD***/game"),
		mkReq(opOpenFile, "/CLOSEFILE"), cdReq(0, 1), rdcReq(0, 10), rdReq(5, 10), mkReq(opOpenDir, "/plain"), mkReq(opOpenDir, "/nope"), noargReq(opReadDirEntry)}
	for L := 3; L <= 4; L++ {
		tot := 1
		for i := 0; i < L; i++ {
			tot *= len(stateAlpha)
		}
		for k := 0; k < tot; k++ {
			idx++
			if !r.Mine(idx) {
				continue
			}
			if L == 4 && !r.Thorough() && k%3 != 0 {
				continue
			}
			if r.TimeUp() {
				break
			}
			seq := make([]Req, L)
			x := k
			for i := L - 1; i >= 0; i-- {
				seq[i] = stateAlpha[x%len(stateAlpha)]
				x /= len(stateAlpha)
			}
			runCase("C04:state-sequences", strings.Join(reqStrings(seq), " ; "), false, seq)
		}
	}
	idx = (idx/1000 + 1) * 1000
	// (b1) PARAM.SFO content
	good := mkSFO([]sfoKV{{"CATEGORY", "DG"}, {"TITLE_ID", "BLES01234"}, {"TITLE", "x"}})
	sfoPath := filepath.Join(w.Root, "sfo", "PS3_GAME", "PARAM.SFO")
	w.File("sfo/a.bin", 100, 1)
	sfoReqs := []Req{mkReq(opOpenFile, "/***PS3***/sfo"), rdReq(0, 4096), rdcReq(2048, 2048), mkReq(opOpenFile, "/***DVD***/sfo"), rdReq(0, 100)}
	var sfos [][]byte
	var sfoDesc []string
	vals := func(l int) []uint32 {
		return []uint32{0, 1, 2, uint32(l - 1), uint32(l), uint32(l + 1), 0x7FFFFFFF, 0xFFFFFFFF}
	}
	for _, fo := range []int{8, 12, 16} { // key table start, data table start, entries
		for _, v := range vals(len(good)) {
			b := append([]byte{}, good...)
			binary.LittleEndian.PutUint32(b[fo:], v)
			sfos = append(sfos, b)
			sfoDesc = append(sfoDesc, sprintf("sfo header field@%d=%#x", fo, v))
		}
	}
	for e := 0; e < 3; e++ {
		for _, fo := range []int{0, 2, 4, 8, 12} {
			for _, v := range vals(len(good)) {
				b := append([]byte{}, good...)
				if fo < 4 {
					binary.LittleEndian.PutUint16(b[20+16*e+fo:], uint16(v))
				} else {
					binary.LittleEndian.PutUint32(b[20+16*e+fo:], v)
				}
				sfos = append(sfos, b)
				sfoDesc = append(sfoDesc, sprintf("sfo index entry %d field@%d=%#x", e, fo, v))
			}
		}
	}
	for l := 0; l <= len(good); l++ {
		sfos = append(sfos, good[:l])
		sfoDesc = append(sfoDesc, sprintf("sfo truncated to %d bytes", l))
	}
	for l := 0; l <= 40; l++ {
		sfos = append(sfos, mkSFO([]sfoKV{{"TITLE_ID", strings.Repeat("T", l)}}))
		sfoDesc = append(sfoDesc, sprintf("sfo TITLE_ID of %d characters", l))
	}
	// NUL-padded / NUL-containing TITLE_ID values with a declared length that covers the padding
	for l := 0; l <= 9; l++ {
		for _, total := range []int{9, 12, 31} {
			if l > total {
				continue
			}
			sfos = append(sfos, mkSFO([]sfoKV{{"TITLE_ID", strings.Repeat("T", l) + strings.Repeat("\x00", total-l)}}))
			sfoDesc = append(sfoDesc, sprintf("sfo TITLE_ID of %d characters NUL-padded to %d", l, total))
		}
	}
	sfos = append(sfos, mkSFO([]sfoKV{{"TITLE_ID", "AB\x00CD12345"}}), mkSFO([]sfoKV{{"TITLE_ID", "\x00BLES01234"}}), mkSFO([]sfoKV{{"TITLE_ID", "BLES\x0001234"}}))
	sfoDesc = append(sfoDesc, "sfo TITLE_ID with an embedded NUL after 2 characters", "sfo TITLE_ID starting with NUL", "sfo TITLE_ID with NUL at the split position")
	b := append([]byte{}, good...)
	b[0] = 'X'
	sfos = append(sfos, b, mkSFO([]sfoKV{{"TITLE", "no id"}}), mkSFO(nil))
	sfoDesc = append(sfoDesc, "sfo bad magic", "sfo without TITLE_ID", "sfo without entries")
	for i, data := range sfos {
		idx++
		if !r.Mine(idx) {
			continue
		}
		must(os.MkdirAll(filepath.Dir(sfoPath), 0o755))
		must(os.WriteFile(sfoPath, data, 0o644))
		runCase("C04:sfo", sfoDesc[i], false, sfoReqs)
	}
	idx = (idx/1000 + 1) * 1000
	// (b2) region tables / key files / 3k3y area through the server
	encReqs := func(p string) []Req {
		return []Req{mkReq(opOpenFile, p), rdReq(0, 600), rdReq(2047, 2050), rdcReq(0xF60, 0x200), rdcReq(4095, 8200), rdReq(24570, 100)}
	}
	for _, cnt := range []uint32{0, 1, 2, 3, 255, 256, 1 << 24, 0xFFFFFFFF} {
		for pi, pairs := range [][]uint32{{0, 2, 5, 8}, {0, 0, 0, 0}, {0, 0xFFFFFFFF, 0, 0xFFFFFFFF}, {5, 2, 1, 0}, {0, 11, 12, 0xFFFFFFF0}, {0, 1, 1, 2, 2, 3}} {
			idx++
			if !r.Mine(idx) {
				continue
			}
			disk := c10Image(c10Table{pairs: pairs, count: cnt}, c10Keys[2], 9)
			w.Data("PS3ISO/h.iso", disk)
			w.Data("PS3ISO/h.dkey", []byte(hex.EncodeToString(c10Keys[2])))
			runCase("C04:region-table", sprintf("region table count=%d pattern %d %v", cnt, pi, pairs), false, encReqs("/PS3ISO/h.iso"))
		}
	}
	// encrypted images cut in the middle of a sector / a cipher block (the tail sector is encrypted)
	fullImg, _ := mkRedumpImage(12, []uint32{0, 2, 5, 7, 11, 12}, c10Keys[2], 21)
	w.Data("PS3ISO/h.dkey", []byte(hex.EncodeToString(c10Keys[2])))
	for _, sec := range []int{3, 4, 8, 10} {
		for _, d := range []int{1, 15, 16, 17, 100, 1024, 2047} {
			idx++
			if !r.Mine(idx) {
				continue
			}
			ln := sec*2048 + d
			w.Data("PS3ISO/h.iso", fullImg[:ln])
			reqs := []Req{mkReq(opOpenFile, "/PS3ISO/h.iso"), rdReq(uint64(sec*2048-10), 4096), rdcReq(uint64(sec*2048), uint32(d)), rdReq(uint64(ln-1), 10), rdReq(0, uint32(ln+100)), rdcReq(uint64(sec*2048+d/2), 1)}
			runCase("C04:truncated-encrypted-image", sprintf("redump image truncated to %d bytes (sector %d + %d)", ln, sec, d), false, reqs)
		}
	}
	disk, _ := mkRedumpImage(12, []uint32{0, 2, 5, 7, 10, 11}, c10Keys[2], 21)
	w.Data("PS3ISO/h.iso", disk)
	for l := 0; l <= 40; l++ {
		for _, nonhex := range []bool{false, true} {
			idx++
			if !r.Mine(idx) {
				continue
			}
			s := hex.EncodeToString(append(append([]byte{}, c10Keys[2]...), c10Keys[3]...))[:l]
			if nonhex && l > 0 {
				s = s[:l-1] + "g"
			}
			w.Data("PS3ISO/h.dkey", []byte(s))
			runCase("C04:key-file", sprintf("key file of %d characters nonhex=%v", l, nonhex), false, encReqs("/PS3ISO/h.iso"))
		}
	}
	os.Remove(filepath.Join(w.Root, "PS3ISO", "h.dkey"))
	for _, wm := range [][]byte{wmEnc, wmDec} {
		for _, ln := range []int{0xF70, 0xF7F, 0xF80, 0xF8F, 0xF90, 0x106F, 0x1070, 0x1071, 0x17FF, 0x1800, 12 * 2048} {
			for _, tbl := range [][]uint32{{0, 2, 5, 8}, {0, 0, 0, 0}, nil} {
				idx++
				if !r.Mine(idx) {
					continue
				}
				plain := patBytes(3, 0, 12*2048)
				copy(plain, regionTable(tbl))
				copy(plain[0xF70:], wm)
				copy(plain[0xF80:], c10Keys[1])
				w.Data("k3/h.iso", plain[:ln])
				runCase("C04:3k3y-area", sprintf("3k3y watermark %x... file length %#x table %v", wm[:2], ln, tbl), false, encReqs("/k3/h.iso"))
			}
		}
	}
	idx = (idx/1000 + 1) * 1000
	// (c) names
	for l := 1; l <= 255; l++ {
		if !r.Thorough() && l > 20 && l%9 != 0 && (l < 105 || l > 130) && l < 250 {
			continue
		}
		idx++
		if !r.Mine(idx) {
			continue
		}
		os.RemoveAll(filepath.Join(w.Root, "nm"))
		w.File("nm/"+strings.Repeat("n", l), 10, 1)
		w.File("nm/"+strings.Repeat("d", l)+"/x", 10, 1)
		w.File(strings.Repeat("R", l)+"/x.bin", 5, 1)
		runCase("C04:names", sprintf("name length %d", l), false, []Req{mkReq(opOpenFile, "/***DVD***/nm"), rdReq(0, 70000), mkReq(opOpenFile, "/***DVD***/"+strings.Repeat("R", l)), rdReq(32768, 4096), mkReq(opOpenDir, "/nm"), noargReq(opReadDir), mkReq(opOpenDir, "/nm"), noargReq(opReadDirEntry), noargReq(opReadDirEntryV2)})
		os.RemoveAll(filepath.Join(w.Root, strings.Repeat("R", l)))
	}
	idx++
	if r.Mine(idx) {
		os.RemoveAll(filepath.Join(w.Root, "nm"))
		for _, nme := range []string{"c d", "c_d", "ab", "AB", "файл", "日本語", "x\ty", "-", ".hidden", "a;1"} {
			w.File("nm/"+nme, 3, 1)
			w.File("nm/D"+nme+"/f", 3, 1)
		}
		runCase("C04:names", "colliding and non-ASCII names", false, []Req{mkReq(opOpenFile, "/***DVD***/nm"), rdReq(0, 200000), mkReq(opOpenDir, "/nm"), noargReq(opReadDir)})
	}
	idx++
	if r.Mine(idx) {
		os.RemoveAll(filepath.Join(w.Root, "nm"))
		for i := 0; i < 1100; i++ {
			must(os.MkdirAll(filepath.Join(w.Root, "nm", sprintf("d%02d", i/40), sprintf("s%04d", i)), 0o755))
		}
		runCase("C04:names", "1100 directories", false, []Req{mkReq(opOpenFile, "/***DVD***/nm"), rdReq(0, 300000), rdcReq(100000, 100000)})
	}
	// odd directory content: links that do not resolve for other reasons than "not found" (loop, through a file),
	// cycles through the parent, names that are not valid UTF-8; one kind per case, then all together
	oddKinds := []string{"selfloop", "mutual", "thrufile", "dangling", "parentcycle", "badutf8", "all"}
	for _, kind := range oddKinds {
		idx++
		if !r.Mine(idx) {
			continue
		}
		nm := filepath.Join(w.Root, "nm")
		os.RemoveAll(nm)
		w.File("nm/plain.bin", 2100, 1)
		w.File("nm/sub/inner.bin", 5, 1)
		has := func(k string) bool { return kind == k || kind == "all" }
		var names []string
		if has("selfloop") {
			must(os.Symlink(filepath.Join(nm, "self"), filepath.Join(nm, "self")))
			names = append(names, "self")
		}
		if has("mutual") {
			must(os.Symlink(filepath.Join(nm, "m2"), filepath.Join(nm, "m1")))
			must(os.Symlink(filepath.Join(nm, "m1"), filepath.Join(nm, "m2")))
			names = append(names, "m1")
		}
		if has("thrufile") {
			must(os.Symlink(filepath.Join(nm, "plain.bin", "x"), filepath.Join(nm, "thru")))
			names = append(names, "thru")
		}
		if has("dangling") {
			must(os.Symlink(filepath.Join(nm, "nothing"), filepath.Join(nm, "dang")))
			names = append(names, "dang")
		}
		if has("parentcycle") {
			must(os.Symlink(nm, filepath.Join(nm, "sub", "up")))
			names = append(names, "sub/up")
		}
		if has("badutf8") {
			w.File("nm/\xc8\xe3\xf0\xe0.iso", 7, 1)
			w.File("nm/\xff\xfe/\xfd", 7, 1)
			names = append(names, "\xc8\xe3\xf0\xe0.iso", "\xff\xfe")
		}
		reqs := []Req{mkReq(opOpenDir, "/nm"), noargReq(opReadDir), mkReq(opOpenDir, "/nm")}
		for i := 0; i < 9; i++ {
			reqs = append(reqs, noargReq(opReadDirEntry))
		}
		reqs = append(reqs, mkReq(opOpenDir, "/nm"))
		for i := 0; i < 9; i++ {
			reqs = append(reqs, noargReq(opReadDirEntryV2))
		}
		reqs = append(reqs, mkReq(opGetDirSize, "/nm"), mkReq(opGetDirSize, "/"))
		for _, n := range names {
			reqs = append(reqs, mkReq(opStatFile, "/nm/"+n), mkReq(opOpenFile, "/nm/"+n), mkReq(opOpenDir, "/nm/"+n), noargReq(opReadDir), mkReq(opGetDirSize, "/nm/"+n), mkReq(opOpenFile, "/***DVD***/nm/"+n))
		}
		reqs = append(reqs, mkReq(opOpenFile, "/***DVD***/nm"), rdReq(0, 70000), mkReq(opOpenFile, "/***PS3***/nm"), rdReq(0, 4096))
		runCase("C04:odd-dir", "directory with "+kind+" entries", false, reqs)
		binSession("directory with "+kind+" entries", reqs)
		os.RemoveAll(nm)
	}
	// (e) "any number of clients": the descriptor table fills up. In-process: Accept reports EMFILE / ENFILE (descriptor table of the process / of the system full;
	// aborted connections never reach the caller, the runtime retries them itself) 1, 3 or 40 times in a row - the accept loop must go on and serve the next client
	for _, errno := range []syscall.Errno{syscall.EMFILE, syscall.ENFILE} {
		for _, k := range []int{1, 3, 40} {
			idx++
			if !r.Mine(idx) {
				continue
			}
			var why string
			synctest.Test(t, func(t *testing.T) {
				s := startSrv(SrvOpts{Root: w.Root})
				a := s.Dial(nil)
				if resp, closed := s.Exchange(a, mkReq(opStatFile, "/").Encode()); len(resp) != szStat || closed {
					why = "first client not served"
				}
				s.ln.FailAccepts(k, tempAcceptErr(errno))
				synctest.Wait()
				time.Sleep(5 * time.Minute) // virtual: a retry pause of up to a second per failure is what net/http does, too
				synctest.Wait()
				b := s.Dial(nil)
				resp, closed := s.Exchange(b, mkReq(opStatFile, "/").Encode())
				if why == "" && (len(resp) != szStat || closed) {
					select {
					case <-s.done:
						why = sprintf("after Accept failed %d time(s) with %v the accept loop ended: the server no longer accepts", k, errno)
					default:
						why = sprintf("after Accept failed %d time(s) with %v the next client is not served (%d bytes, closed=%v)", k, errno, len(resp), closed)
					}
				}
				if resp, closed := s.Exchange(a, mkReq(opStatFile, "/").Encode()); why == "" && (len(resp) != szStat || closed) {
					why = "the client connected before the accept failures is no longer served"
				}
				s.Shutdown()
			})
			key := sprintf("accept fails %d x %v", k, errno)
			r.Transition(3)
			r.Eval(1)
			r.State(key)
			r.Nontrivial(key)
			if why != "" {
				r.Violation("C04:accept-error-stops-server", why, map[string]any{"errno": errno.Error(), "times": k})
			} else {
				r.Outcome("accept-error-survived")
			}
		}
	}
	// descriptor use must not grow with the content of a directory: an image of 300 non-empty files in 200 directories built and read from
	// start to end (and a 300-entry directory listed) keeps a bounded number of handles open at any moment
	idx++
	if r.Mine(idx) {
		os.RemoveAll(filepath.Join(w.Root, "nm"))
		for i := 0; i < 300; i++ {
			w.File(sprintf("nm/g%d/sub/f%04d.bin", i%100, i), int64(1+i%4*900), byte(i))
		}
		leaf := newVFs(afero.NewOsFs(), "leaf")
		leaf.record = false
		var why string
		synctest.Test(t, func(t *testing.T) {
			s := startSrv(SrvOpts{Root: w.Root, LeafWrap: func(afero.Fs) afero.Fs { return leaf }})
			c := s.Dial(nil)
			resp, _ := s.Exchange(c, mkReq(opOpenFile, "/***DVD***/nm").Encode())
			if len(resp) != szOpenFile || int64(be64(resp)) <= 0 {
				why = "image of 300 files could not be opened: " + hexHead(resp)
			} else {
				size := be64(resp)
				for off := uint64(0); off < size && why == ""; off += 65536 {
					r2, closed := s.Exchange(c, rdcReq(off, uint32(min(65536, size-off))).Encode())
					if closed || uint64(len(r2)) != min(65536, size-off) {
						why = sprintf("critical read at %d of the image failed (%d bytes, closed=%v)", off, len(r2), closed)
					}
				}
				s.Exchange(c, mkReq(opOpenDir, "/nm/g0/sub").Encode())
				s.Exchange(c, noargReq(opReadDir).Encode())
			}
			s.Shutdown()
		})
		r.Transition(10)
		r.Eval(1)
		r.State("descriptor use of a 300-file image")
		r.Nontrivial("descriptor use of a 300-file image")
		r.Extra("peak_open_handles_300_file_image", leaf.Peak())
		if why != "" {
			r.Violation("C04:descriptors:read-failed", why, nil)
		} else if leaf.Peak() > 16 {
			r.Violation("C04:descriptors:grow-with-content", sprintf("reading the image of a directory with 300 files from start to end held up to %d files and directories open at the same time (they grow with the content of the tree): a tree larger than the descriptor limit exhausts the process's descriptors, new connections cannot be accepted and other connections' opens fail", leaf.Peak()), map[string]any{"peak_open_handles": leaf.Peak()})
		} else {
			r.Outcome("descriptor-use-bounded")
		}
		os.RemoveAll(filepath.Join(w.Root, "nm"))
	}
	// memory use must not grow with the length a request asks for: an ordinary read of 768 MiB (of a sparse file)
	// through a 64 KiB send window - when the first bytes arrive, the server must not be holding the whole answer
	idx++
	if r.Mine(idx) {
		big := filepath.Join(w.Root, "sparse768m.bin")
		f, err := os.Create(big)
		must(err)
		must(f.Truncate(768 << 20))
		must(f.Close())
		var why string
		var grown uint64
		synctest.Test(t, func(t *testing.T) {
			s := startSrv(SrvOpts{Root: w.Root})
			c := s.Dial(nil)
			c.outCap = 64 << 10
			if resp, _ := s.Exchange(c, mkReq(opOpenFile, "/sparse768m.bin").Encode()); len(resp) != szOpenFile {
				why = "cannot open the sparse file: " + hexHead(resp)
				s.Shutdown()
				return
			}
			runtime.GC()
			var m0, m1 runtime.MemStats
			runtime.ReadMemStats(&m0)
			c.Send(rdReq(0, 768<<20).Encode())
			synctest.Wait()
			runtime.ReadMemStats(&m1)
			if m1.HeapAlloc > m0.HeapAlloc {
				grown = m1.HeapAlloc - m0.HeapAlloc
			}
			first := c.Take()
			if len(first) < 4 || int32(be32(first)) != 768<<20 {
				why = sprintf("ordinary read of 768 MiB: header %s", hexHead(first))
			}
			// the client goes away in the middle of the answer
			c.Rst()
			synctest.Wait()
			s.Shutdown()
		})
		os.Remove(big)
		r.Transition(2)
		r.Eval(1)
		r.State("memory use of a 768 MiB ordinary read")
		r.Nontrivial("memory use of a 768 MiB ordinary read")
		r.Extra("heap_growth_during_768MiB_read", grown)
		if why != "" {
			r.Violation("C04:memory:read-failed", why, nil)
		} else if grown > 128<<20 {
			r.Violation("C04:memory:grows-with-request", sprintf("an ordinary read of 768 MiB made the server's heap grow by %d MiB before the first byte was sent (the whole answer is collected in memory): a single request for 2 GiB terminates the process on a host with less memory than that", grown>>20), map[string]any{"heap_growth_bytes": grown})
		} else {
			r.Outcome("memory-use-bounded")
		}
	}
	// the real process with 64 descriptors: 100 clients connect at once (more than it has descriptors), then leave -
	// the process must survive and serve a new client; and a client reading the image of 200 files sector by sector
	// while another one connects after every step
	if binPath() != "" && r.Shard == 0 {
		logDir := binLogDir("C04fd")
		must(os.MkdirAll(logDir, 0o755))
		for i := 0; i < 200; i++ {
			w.File(sprintf("nm/f%04d.bin", i), 100, byte(i))
		}
		b, err := startBinLimited([]string{"server", "--listen-addr=127.0.0.1:0", "--root=" + w.Root, "--read-timeout=2m"}, cleanEnv(logDir), w.Dir, filepath.Join(logDir, "server.log"), 30*time.Second, 64)
		if err != nil {
			r.HarnessError("cannot start the real binary with a descriptor limit: " + err.Error())
		} else {
			var conns []net.Conn
			for i := 0; i < 100; i++ {
				c, err := net.DialTimeout("tcp", b.Addr, 2*time.Second)
				if err != nil {
					break
				}
				conns = append(conns, c)
			}
			time.Sleep(300 * time.Millisecond)
			for _, c := range conns {
				c.Close()
			}
			time.Sleep(300 * time.Millisecond)
			alive := func(what string) bool {
				for try := 0; try < 50; try++ {
					if p, err := dialFrom(b.Addr, "", 2*time.Second); err == nil {
						ok, ex, _ := p.statProbe("/", 5*time.Second)
						p.Close()
						if ok && ex {
							return true
						}
					}
					if b.Exited() {
						break
					}
					time.Sleep(100 * time.Millisecond)
				}
				r.Violation("C04:descriptors:real-binary-died", sprintf("real server started with 64 descriptors: %s it no longer serves (exited=%v): %s", what, b.Exited(), lastLines(b.Log(), 4)), nil)
				return false
			}
			r.Trace(1)
			r.State("real binary: more clients than descriptors")
			if alive(sprintf("after %d clients connected at once and left,", len(conns))) {
				r.Outcome("more-clients-than-descriptors-survived")
				// one client walks through the image of 200 files while others come and go
				if a, err := dialFrom(b.Addr, "", 5*time.Second); err == nil {
					a.c.SetDeadline(time.Now().Add(60 * time.Second))
					a.c.Write(mkReq(opOpenFile, "/***DVD***/nm").Encode())
					hdr := make([]byte, szOpenFile)
					io.ReadFull(a.c, hdr)
					size := be64(hdr)
					okAll := true
					for off := uint64(0x10000); off < size && okAll; off += 2048 {
						a.c.Write(rdReq(off, 2048).Encode())
						buf := make([]byte, 4+2048)
						if _, err := io.ReadFull(a.c, buf); err != nil {
							break // the reading client itself may be refused or dropped; the others must not suffer
						}
						p, err := dialFrom(b.Addr, "", 2*time.Second)
						if err != nil {
							okAll = false
							break
						}
						ok, ex, _ := p.statProbe("/", 5*time.Second)
						p.Close()
						okAll = ok && ex
					}
					a.Close()
					r.Trace(1)
					r.State("real binary: image of 200 files with 64 descriptors")
					if !okAll || b.Exited() {
						r.Violation("C04:descriptors:image-reader-starves-others", sprintf("real server started with 64 descriptors: while one client reads the image of a 200-file directory sector by sector, other clients are no longer served (exited=%v): %s", b.Exited(), lastLines(b.Log(), 4)), nil)
					} else {
						r.Outcome("image-reader-does-not-starve-others")
					}
				}
			}
			b.Stop()
		}
		os.RemoveAll(filepath.Join(w.Root, "nm"))
		// the real process with 3 GB of address space: one ordinary read of 2^31-1 bytes of a 5 GiB sparse file
		big := filepath.Join(w.Root, "sparse5g.bin")
		if f, err := os.Create(big); err == nil {
			f.Truncate(5 << 30)
			f.Close()
			b, err := startBinLimitedV([]string{"server", "--listen-addr=127.0.0.1:0", "--root=" + w.Root, "--read-timeout=2m"}, cleanEnv(logDir), w.Dir, filepath.Join(logDir, "server-mem.log"), 30*time.Second, 3000000)
			if err != nil {
				r.HarnessError("cannot start the real binary with an address-space limit: " + err.Error())
			} else {
				if a, err := dialFrom(b.Addr, "", 5*time.Second); err == nil {
					a.c.SetDeadline(time.Now().Add(120 * time.Second))
					a.c.Write(mkReq(opOpenFile, "/sparse5g.bin").Encode())
					hdr := make([]byte, szOpenFile)
					io.ReadFull(a.c, hdr)
					a.c.Write(rdReq(0, 1<<31-1).Encode())
					h4 := make([]byte, 4)
					io.ReadFull(a.c, h4)
					io.CopyN(io.Discard, a.c, 64<<20) // take a part of the answer, then leave
					a.Close()
				}
				time.Sleep(300 * time.Millisecond)
				r.Trace(1)
				r.State("real binary: 2 GiB ordinary read with 3 GB of address space")
				alive := false
				for try := 0; try < 30 && !alive && !b.Exited(); try++ {
					if p, err := dialFrom(b.Addr, "", 2*time.Second); err == nil {
						ok, ex, _ := p.statProbe("/", 5*time.Second)
						p.Close()
						alive = ok && ex
					}
					if !alive {
						time.Sleep(100 * time.Millisecond)
					}
				}
				if !alive {
					r.Violation("C04:memory:real-binary-died", sprintf("real server started with 3 GB of address space: after one ordinary read of 2^31-1 bytes it no longer serves (exited=%v): %s", b.Exited(), lastLines(b.Log(), 3)), nil)
				} else {
					r.Outcome("huge-ordinary-read-survived")
				}
				b.Stop()
			}
			os.Remove(big)
		}
		os.RemoveAll(logDir)
	}
	// (c') what lies on disk when the real process starts (its start-up work walks the served tree): crowded roots and
	// subdirectories, link loops, dangling links, special files, deep nesting, odd names - the process is still alive
	// and answering two seconds after it began to listen
	if binPath() != "" {
		logDir := binLogDir("C04start")
		must(os.MkdirAll(logDir, 0o755))
		shapes := []struct {
			name  string
			build func(root string)
		}{
			{"root with 4100 entries", func(root string) {
				for i := 0; i < 4100; i++ {
					must(os.WriteFile(filepath.Join(root, sprintf("f%04d", i)), nil, 0o644))
				}
			}},
			{"root with exactly 4096 and a subdirectory with 4097 entries", func(root string) {
				must(os.Mkdir(filepath.Join(root, "GAMES"), 0o755))
				for i := 0; i < 4095; i++ {
					must(os.WriteFile(filepath.Join(root, sprintf("f%04d", i)), nil, 0o644))
				}
				for i := 0; i < 4097; i++ {
					must(os.WriteFile(filepath.Join(root, "GAMES", sprintf("g%04d", i)), nil, 0o644))
				}
			}},
			{"link loops, dangling links, a FIFO, a socket-like name, a directory without permissions", func(root string) {
				must(os.MkdirAll(filepath.Join(root, "a", "b"), 0o755))
				must(os.Symlink("..", filepath.Join(root, "a", "b", "up")))
				must(os.Symlink(root, filepath.Join(root, "a", "rootlink")))
				must(os.Symlink("self", filepath.Join(root, "self")))
				must(os.Symlink("/nonexistent/target", filepath.Join(root, "dangling")))
				must(syscall.Mkfifo(filepath.Join(root, "fifo"), 0o644))
				must(os.Mkdir(filepath.Join(root, "closed"), 0o000))
				must(os.WriteFile(filepath.Join(root, "\xff\xfe name\n"), nil, 0o644))
			}},
			{"200 nested directories", func(root string) {
				p := root
				for i := 0; i < 200; i++ {
					p = filepath.Join(p, "d")
				}
				must(os.MkdirAll(p, 0o755))
			}},
			{"empty root", func(root string) {}},
		}
		for si, sh := range shapes {
			idx++
			if !r.Mine(idx) {
				continue
			}
			root := filepath.Join(w.Dir, sprintf("startroot%d", si))
			os.RemoveAll(root)
			must(os.MkdirAll(root, 0o755))
			sh.build(root)
			for _, extra := range [][]string{nil, {"--debug"}, {"--allow-write"}} {
				args := append([]string{"server", "--listen-addr=127.0.0.1:0", "--root=" + root}, extra...)
				b, err := startBin(args, cleanEnv(logDir), w.Dir, filepath.Join(logDir, "server.log"), 30*time.Second)
				r.Trace(1)
				key := sprintf("start-up over: %s %v", sh.name, extra)
				r.State(key)
				r.Nontrivial(key)
				if err != nil {
					r.Outcome("startup-failed")
					r.Violation("C04:startup:did-not-start", sprintf("real server over a root with %s %v: %v | %s", sh.name, extra, err, lastLines(b.Log(), 4)), map[string]any{"shape": sh.name, "args": extra})
					continue
				}
				time.Sleep(2 * time.Second)
				alive := false
				for try := 0; try < 3 && !alive && !b.Exited(); try++ {
					if p, err := dialFrom(b.Addr, "", 2*time.Second); err == nil {
						ok, ex, _ := p.statProbe("/", 5*time.Second)
						p.Close()
						alive = ok && ex
					}
				}
				if !alive {
					r.Outcome("startup-died")
					r.Violation("C04:startup:died", sprintf("real server over a root with %s %v: two seconds after it began to listen it no longer serves (exited=%v): %s", sh.name, extra, b.Exited(), lastLines(b.Log(), 5)), map[string]any{"shape": sh.name, "args": extra})
				} else {
					r.Outcome("startup-survived")
				}
				b.Stop()
			}
			os.Chmod(filepath.Join(root, "closed"), 0o755)
			os.RemoveAll(root)
		}
		os.RemoveAll(logDir)
	}
	// (d) the same artefacts through the offline tools
	if binPath() != "" {
		c04Tools(r, w, sfos, sfoDesc, &idx)
	}
	r.Assume("'all byte streams' is replaced by the bounded hostile alphabet above; random or mutational fuzzing is a different family and is not used; memory use is checked for one request shape only (a huge ordinary read, in-process and on the real binary under an address-space limit)")
}

func c04Tools(r *Reporter, w *World, sfos [][]byte, sfoDesc []string, idx *int) {
	base := filepath.Join(w.Dir, "tools")
	must(os.MkdirAll(base, 0o755))
	env := cleanEnv(base)
	check := func(desc string, args []string) {
		out := filepath.Join(base, "out.bin")
		os.Remove(out)
		code, _, stderr, err := runTool(append(args, out), env, base, "", 60*time.Second)
		r.Transition(1)
		r.Eval(1)
		r.State("tool:" + desc)
		if err != nil {
			r.Violation("C04:tool-hang", desc+": "+err.Error(), map[string]any{"args": args})
			return
		}
		if strings.Contains(stderr, "panic:") || strings.Contains(stderr, "goroutine ") || strings.Contains(stderr, "fatal error:") || (code != 0 && code != 1 && code != 80) {
			r.Outcome("tool-crash")
			r.Violation("C04:tool-crash:"+args[0], sprintf("%s: exit %d, stderr: %s", desc, code, lastLines(stderr, 6)), map[string]any{"args": args})
			return
		}
		r.Outcome(sprintf("tool-exit-%d", code))
	}
	tdir := filepath.Join(base, "g")
	for i, data := range sfos {
		*idx++
		if !r.Mine(*idx) || (!r.Thorough() && i%3 != 0 && !strings.Contains(sfoDesc[i], "TITLE_ID")) {
			continue
		}
		os.RemoveAll(tdir)
		writeFileAbs(filepath.Join(tdir, "PS3_GAME", "PARAM.SFO"), data, baseTime)
		mkFileAbs(filepath.Join(tdir, "a.bin"), 100, 1, baseTime)
		check("make-iso --ps3-mode with "+sfoDesc[i], []string{"make-iso", "--ps3-mode", tdir})
	}
	for _, l := range []int{1, 16, 17, 40, 110, 111, 128, 200, 255} {
		*idx++
		if !r.Mine(*idx) {
			continue
		}
		d := filepath.Join(base, strings.Repeat("V", l))
		mkFileAbs(filepath.Join(d, strings.Repeat("n", l)), 10, 1, baseTime)
		must(os.MkdirAll(filepath.Join(d, strings.Repeat("d", l)), 0o755))
		check(sprintf("make-iso with names of length %d", l), []string{"make-iso", d})
		os.RemoveAll(d)
	}
	for _, cnt := range []uint32{0, 1, 2, 255, 256, 1 << 24, 0xFFFFFFFF} {
		for _, pairs := range [][]uint32{{0, 2, 5, 8}, {0, 0xFFFFFFFF, 0, 0xFFFFFFFF}, {5, 2, 1, 0}} {
			*idx++
			if !r.Mine(*idx) {
				continue
			}
			plain := patBytes(3, 0, 12*2048)
			hdr := regionTable(pairs)
			binary.BigEndian.PutUint32(hdr, cnt)
			copy(plain, hdr)
			copy(plain[0xF70:], wmEnc)
			img := filepath.Join(base, "h.iso")
			must(os.WriteFile(img, plain, 0o644))
			kf := filepath.Join(base, "h.dkey")
			must(os.WriteFile(kf, []byte(hex.EncodeToString(c10Keys[2])), 0o644))
			check(sprintf("decrypt redump count=%d pairs=%v", cnt, pairs), []string{"decrypt", "redump", img, kf})
			check(sprintf("decrypt 3k3y count=%d pairs=%v", cnt, pairs), []string{"decrypt", "3k3y", img})
		}
	}
	for _, ln := range []int{3*2048 + 1, 3*2048 + 17, 8*2048 + 100, 10*2048 + 2047} {
		*idx++
		if !r.Mine(*idx) {
			continue
		}
		full, _ := mkRedumpImage(12, []uint32{0, 2, 5, 7, 11, 12}, c10Keys[2], 21)
		copy(full[0xF70:], wmEnc)
		copy(full[0xF80:], c10Keys[2])
		img := filepath.Join(base, "t.iso")
		must(os.WriteFile(img, full[:ln], 0o644))
		kf := filepath.Join(base, "t.dkey")
		must(os.WriteFile(kf, []byte(hex.EncodeToString(c10Keys[2])), 0o644))
		check(sprintf("decrypt redump of an image truncated to %d bytes", ln), []string{"decrypt", "redump", img, kf})
		check(sprintf("decrypt 3k3y of an image truncated to %d bytes", ln), []string{"decrypt", "3k3y", img})
	}
	for _, l := range []int{0, 1, 31, 32, 33} {
		*idx++
		if !r.Mine(*idx) {
			continue
		}
		img := filepath.Join(base, "h.iso")
		d, _ := mkRedumpImage(12, []uint32{0, 2, 5, 7, 10, 11}, c10Keys[2], 21)
		must(os.WriteFile(img, d, 0o644))
		kf := filepath.Join(base, "h.dkey")
		must(os.WriteFile(kf, []byte(strings.Repeat("z", l)), 0o644))
		check(sprintf("decrypt redump with key file of %d non-hex characters", l), []string{"decrypt", "redump", img, kf})
		must(os.WriteFile(img, d[:l*100], 0o644))
		check(sprintf("decrypt 3k3y of a %d-byte file", l*100), []string{"decrypt", "3k3y", img})
	}
}
