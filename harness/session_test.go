package verifh

import (
	"fmt"
	"testing"
	"time"
	"testing/synctest"
)

// StepObs is what the client observed for one request.
type StepObs struct {
	Req    string `json:"req"`
	Resp   string `json:"resp"`
	Closed bool   `json:"closed"`
	Class  string `json:"class"`
}

type SessResult struct {
	Steps    []StepObs
	Why      string // first violation ("" = none)
	WhySig   string
	FailStep int
	Raw      [][]byte
	Closed   []bool
}

type Delivery struct {
	Chunk   int            // >0: client delivers each request in pieces of this many bytes, waiting for quiescence in between
	Pieces  []int          // non-empty: each request is delivered in pieces of these sizes (the rest in one last piece), waiting for quiescence in between
	MaxRead int            // >0: server-side socket reads return at most this many bytes
	Before  map[int]func() `json:"-"` // harness actions executed before request i is sent (e.g. replace a file on disk)
	Prelude func(s *Sess)  `json:"-"` // runs on the fresh server before the judged connection is made (e.g. another client's aborted transfer)
	StallT  time.Duration  // >0: after a truncated request the client does not send FIN but falls silent for longer than this (the server's read timeout)
}

// runSession drives one connection through reqs against a freshly started server and checks every response
// with the model. It runs inside its own synctest bubble.
func runSession(t *testing.T, o SrvOpts, m *Model, reqs []Req, d Delivery) *SessResult {
	res := &SessResult{FailStep: -1}
	synctest.Test(t, func(t *testing.T) {
		s := startSrv(o)
		if d.Prelude != nil {
			d.Prelude(s)
		}
		c := s.Dial(nil)
		c.maxRead = d.MaxRead
		synctest.Wait()
		fail := func(i int, sig, why string) {
			if res.Why == "" {
				res.Why, res.WhySig, res.FailStep = why, sig, i
			}
		}
		for i, rq := range reqs {
			tick()
			if f := d.Before[i]; f != nil {
				f()
			}
			if m != nil {
				m.Pre(rq)
			}
			b := rq.Encode()
			var resp []byte
			var closed bool
			if len(d.Pieces) > 0 {
				p := 0
				for _, n := range d.Pieces {
					if p >= len(b) {
						break
					}
					e := min(p+n, len(b))
					c.Send(b[p:e])
					synctest.Wait()
					p = e
				}
				if p < len(b) {
					c.Send(b[p:])
					synctest.Wait()
				}
				resp, closed = c.Take(), c.ServerClosed()
			} else if d.Chunk > 0 {
				for p := 0; p < len(b); p += d.Chunk {
					e := p + d.Chunk
					if e > len(b) {
						e = len(b)
					}
					c.Send(b[p:e])
					synctest.Wait()
				}
				resp, closed = c.Take(), c.ServerClosed()
			} else {
				resp, closed = s.Exchange(c, b)
			}
			if rq.Raw != nil && !closed && d.StallT > 0 {
				// truncated request, then silence with the connection open: the read timeout must end the connection
				time.Sleep(d.StallT + d.StallT/2)
				synctest.Wait()
				resp = append(resp, c.Take()...)
				if closed = c.ServerClosed(); !closed {
					fail(i, opName(rq.Op)+":stalled-request-survives-timeout", fmt.Sprintf("step %d %s: the client fell silent inside the request for 1.5 read timeouts and the connection is still open (answered %s)", i, rq.String(), hexHead(resp)))
				}
			}
			if rq.Raw != nil && !closed {
				// truncated request: the client gives up (FIN); the server must just end the connection
				c.Fin()
				synctest.Wait()
				resp = append(resp, c.Take()...)
				closed = c.ServerClosed()
			}
			res.Raw = append(res.Raw, resp)
			res.Closed = append(res.Closed, closed)
			st := StepObs{Req: rq.String(), Resp: hexHead(resp), Closed: closed}
			if m != nil {
				why, class := m.Check(rq, resp, closed)
				st.Class = class
				if why != "" {
					fail(i, opName(rq.Op)+":"+class, fmt.Sprintf("step %d %s: %s", i, rq.String(), why))
				}
			}
			if !closed && c.Pending() != 0 {
				st.Class += "+unconsumed"
				fail(i, opName(rq.Op)+":unconsumed", fmt.Sprintf("step %d %s: server answered but left %d request bytes unconsumed (they will be parsed as the next command)", i, rq.String(), c.Pending()))
			}
			res.Steps = append(res.Steps, st)
			if closed {
				break
			}
		}
		s.Shutdown()
		if extra := c.Take(); len(extra) != 0 {
			fail(len(reqs), "stray-after-end", fmt.Sprintf("server wrote %d stray bytes at connection end: %s", len(extra), hexHead(extra)))
		}
		if !c.ServerClosed() {
			fail(len(reqs), "not-closed", "server did not close the connection after client FIN")
		}
		select {
		case <-s.done:
		default:
			fail(len(reqs), "serve-stuck", "Serve did not return after listener close")
		}
	})
	if m != nil && res.Why == "" {
		if w := m.Final(); w != "" {
			res.Why, res.WhySig, res.FailStep = w, "upload-content", len(reqs)
		}
	}
	return res
}

// runPipelined sends all requests back-to-back in one piece (as one TCP segment would carry them), then the
// client's FIN, and returns everything the server wrote. Pipelining is legal on a stream: the answer must be the
// concatenation of the answers given to the same requests sent one by one.
func runPipelined(t *testing.T, o SrvOpts, reqs []Req, maxRead int) (stream []byte, closed bool) {
	synctest.Test(t, func(t *testing.T) {
		s := startSrv(o)
		c := s.Dial(nil)
		c.maxRead = maxRead
		synctest.Wait()
		var all []byte
		for _, rq := range reqs {
			all = append(all, rq.Encode()...)
		}
		tick()
		c.Send(all)
		synctest.Wait()
		c.Fin()
		synctest.Wait()
		s.Shutdown()
		stream = c.Take()
		closed = c.ServerClosed()
	})
	return
}

func reqStrings(reqs []Req) []string {
	var out []string
	for _, r := range reqs {
		out = append(out, r.String())
	}
	return out
}

func (d Delivery) plain() bool { return d.Chunk == 0 && len(d.Pieces) == 0 && d.MaxRead == 0 && d.Before == nil && d.Prelude == nil && d.StallT == 0 }
