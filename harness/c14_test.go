package verifh

import (
	"fmt"
	"math/big"
	"net"
	"net/netip"
	"regexp"
	"strings"
	"testing"

	"github.com/xakep666/ps3netsrv-go/pkg/iprange"
)

// ---- reference model (net/netip + math/big), written from the documented grammar ----

type refRange struct {
	lo, hi *big.Int // inclusive, in the 128-bit space with IPv4 mapped to ::ffff:a.b.c.d
}

func addrInt(a netip.Addr) *big.Int {
	b := a.As16() // v4 -> mapped
	return new(big.Int).SetBytes(b[:])
}

func refParseAddr(s string) (netip.Addr, bool) {
	a, err := netip.ParseAddr(s)
	if err != nil || a.Zone() != "" {
		return netip.Addr{}, false
	}
	return a, true
}

var decRx = regexp.MustCompile(`^(0|[1-9][0-9]{0,5})$`)

func refBlock(a netip.Addr, prefix int) *refRange {
	bits := 128
	if a.Is4() {
		bits = 32
	}
	host := uint(bits - prefix)
	hostmask := new(big.Int).Sub(new(big.Int).Lsh(big.NewInt(1), host), big.NewInt(1))
	base := addrInt(a)
	lo := new(big.Int).AndNot(base, hostmask)
	hi := new(big.Int).Or(lo, hostmask)
	if host >= 2 { // more than two addresses: drop network and broadcast
		lo.Add(lo, big.NewInt(1))
		hi.Sub(hi, big.NewInt(1))
	}
	return &refRange{lo, hi}
}

// refParse returns (range, true) when the documented grammar accepts s.
func refParse(s string) (*refRange, bool) {
	if i := strings.IndexAny(s, "/-"); i >= 0 {
		l, r := s[:i], s[i+1:]
		if s[i] == '/' {
			a, ok := refParseAddr(l)
			if !ok {
				return nil, false
			}
			bits := 128
			if a.Is4() {
				bits = 32
			}
			if decRx.MatchString(r) {
				var p int
				fmt.Sscanf(r, "%d", &p)
				if p > bits {
					return nil, false
				}
				return refBlock(a, p), true
			}
			m, ok := refParseAddr(r)
			if !ok || !m.Is4() || !a.Is4() {
				return nil, false
			}
			mb := m.As4()
			v := uint32(mb[0])<<24 | uint32(mb[1])<<16 | uint32(mb[2])<<8 | uint32(mb[3])
			ones := 0
			for ones < 32 && v&(1<<(31-uint(ones))) != 0 {
				ones++
			}
			if ones < 32 && v<<uint(ones) != 0 {
				return nil, false // non-contiguous
			}
			return refBlock(a, ones), true
		}
		a, ok1 := refParseAddr(l)
		b, ok2 := refParseAddr(r)
		if !ok1 || !ok2 || a.Is4() != b.Is4() {
			return nil, false
		}
		lo, hi := addrInt(a), addrInt(b)
		if lo.Cmp(hi) > 0 {
			return nil, false
		}
		return &refRange{lo, hi}, true
	}
	a, ok := refParseAddr(s)
	if !ok {
		return nil, false
	}
	return &refRange{addrInt(a), addrInt(a)}, true
}

func (r *refRange) contains(x *big.Int) bool { return x.Cmp(r.lo) >= 0 && x.Cmp(r.hi) <= 0 }

var max128 = new(big.Int).Sub(new(big.Int).Lsh(big.NewInt(1), 128), big.NewInt(1))

// forms returns the net.IP spellings of the 128-bit value x (16-byte; plus 4-byte when mapped v4).
func ipForms(x *big.Int) []net.IP {
	if x.Sign() < 0 || x.Cmp(max128) > 0 {
		return nil
	}
	var b [16]byte
	x.FillBytes(b[:])
	ip16 := net.IP(append([]byte(nil), b[:]...))
	out := []net.IP{ip16}
	if v4 := ip16.To4(); v4 != nil {
		out = append(out, append(net.IP(nil), v4...))
	}
	return out
}

func c14Specs(thorough bool) []string {
	v4 := []string{"0.0.0.0", "0.0.0.1", "10.0.0.0", "10.1.2.3", "127.0.0.1", "192.0.2.0", "192.0.2.10", "192.0.2.255",
		"192.168.255.254", "255.255.255.254", "255.255.255.255", "128.0.0.0"}
	v6 := []string{"::", "::1", "2001:db8::", "2001:db8::10", "2001:db8::ffff", "fe80::1:2:3:4", "ffff:ffff:ffff:ffff:ffff:ffff:ffff:ffff",
		"8000::", "2001:db8:0:1::", "::fffe:0:0"}
	var specs []string
	add := func(s string) { specs = append(specs, s) }
	for _, a := range v4 {
		add(a)
	}
	for _, a := range v6 {
		add(a)
	}
	all := append(append([]string{}, v4...), v6...)
	for _, a := range all {
		for _, b := range all {
			add(a + "-" + b)
		}
	}
	for _, a := range v4 {
		for p := -1; p <= 33; p++ {
			add(fmt.Sprintf("%s/%d", a, p))
		}
	}
	for _, a := range v6 {
		for p := -1; p <= 129; p++ {
			add(fmt.Sprintf("%s/%d", a, p))
		}
	}
	// masks: all 33 contiguous, each with one bit flipped
	maskStr := func(v uint32) string {
		return fmt.Sprintf("%d.%d.%d.%d", byte(v>>24), byte(v>>16), byte(v>>8), byte(v))
	}
	bases := v4
	if !thorough {
		bases = []string{"0.0.0.1", "10.1.2.3", "192.0.2.10", "255.255.255.255"}
	}
	for ones := 0; ones <= 32; ones++ {
		var m uint32
		if ones > 0 {
			m = ^uint32(0) << uint(32-ones)
		}
		for _, a := range bases {
			add(a + "/" + maskStr(m))
		}
		for bit := 0; bit < 32; bit++ {
			fm := m ^ (1 << uint(bit))
			for _, a := range bases[:2] {
				add(a + "/" + maskStr(fm))
			}
		}
	}
	// near misses
	for _, s := range []string{"", " ", "abc", "1.2.3", "1.2.3.4.5", "1.2.3.256", "1.2.3.4/", "/24", "/", "-", "1.2.3.4-", "-1.2.3.4",
		"1.2.3.4/24/25", "1.2.3.4-1.2.3.5-1.2.3.6", "1.2.3.4 /24", "1.2.3.4/ 24", "::1/255.255.255.0", "2001:db8::/255.255.255.0",
		"1.2.3.4/ffff::", "1.2.3.4/::", "2001:db8::/ffff:ffff::", "1.2.3.4/mask", "2001:db8/64", "2001:db8", "1.2.3.4/24-1.2.3.5", "1.2.3.4-1.2.3.5/24",
		"1.2.3.4/1.2.3.4", "1.2.3.4/0.0.0.1", "1.2.3.4/255.255.255.253", "1.2.3.4/4294967296", "1.2.3.4/99999999999999999999",
		"g::1", "1.2.3.4/x", "1..3.4", "1.2.3.4-1.2.3", "2001:db8::-2001:db8", "2001:db8-2001:db8::10", ":::", "::1-::", "1.2.3.5-1.2.3.4"} {
		add(s)
	}
	return specs
}

func TestC14(t *testing.T) {
	r := NewReporter(t)
	defer r.Done()
	r.Rule("spec strings enumerated from the documented grammar and near misses; a spec is distinct by its text; every spec also decoded over a value that already holds one of 4 earlier ranges, and over a copy of a value returned by ParseIPRange; probes per accepted spec: borders +-1, network, broadcast, midpoint, far outside, in 16-byte and (for mapped v4) 4-byte form; thorough: every address of every v4 block /20../32 plus a margin; the grammar space: every string of <= 6 (thorough 8) characters over \"109.:/-f \" and every sequence of <= 4 (thorough 6) tokens over 18 tokens (numbers at the limits, separators, hex groups, whole addresses), accept/reject and border membership against the reference")
	specs := c14Specs(r.Thorough())
	one := big.NewInt(1)
	for i, s := range specs {
		if !r.Mine(i) {
			continue
		}
		r.State(s)
		r.Nontrivial(s)
		ref, refOK := refParse(s)
		got, err := iprange.ParseIPRange(s)
		r.Eval(1)
		if (err == nil) != refOK {
			r.Outcome("accept-mismatch")
			r.Violation(sprintf("C14:accept:%v->%v", refOK, err == nil), sprintf("spec %q: reference accept=%v, ParseIPRange err=%v", s, refOK, err), map[string]any{"spec": s})
			continue
		}
		// UnmarshalText must agree with ParseIPRange
		var um iprange.IPRange
		uerr := um.UnmarshalText([]byte(s))
		if (uerr == nil) != refOK {
			r.Violation("C14:unmarshal-accept", sprintf("spec %q: UnmarshalText err=%v, reference accept=%v", s, uerr, refOK), map[string]any{"spec": s})
		}
		// the same value decoded twice (an option given twice, a reloaded configuration): UnmarshalText over a value
		// that already holds a range must end exactly like a fresh decode - accepted and denoting the new set, or rejected
		for _, prior := range []string{"10.0.0.0/8", "192.168.1.10", "2001:db8::/64", "1.2.3.4-1.2.3.9"} {
			var v iprange.IPRange
			if err := v.UnmarshalText([]byte(prior)); err != nil {
				r.Violation("C14:unmarshal-accept", sprintf("spec %q rejected: %v", prior, err), map[string]any{"spec": prior})
				break
			}
			err2 := v.UnmarshalText([]byte(s))
			r.Transition(1)
			if (err2 == nil) != refOK {
				r.Outcome("reuse-accept-mismatch")
				r.Violation("C14:unmarshal-over-previous:accept", sprintf("UnmarshalText(%q) on a value that already holds %q: err=%v, reference accept=%v", s, prior, err2, refOK), map[string]any{"spec": s, "previous": prior})
				break
			}
			if !refOK {
				continue
			}
			bad := false
			pref, _ := refParse(prior)
			for _, x := range []*big.Int{ref.lo, ref.hi, new(big.Int).Sub(ref.lo, one), new(big.Int).Add(ref.hi, one), pref.lo, pref.hi, new(big.Int).Rsh(new(big.Int).Add(pref.lo, pref.hi), 1)} {
				if x.Sign() < 0 || x.Cmp(max128) > 0 {
					continue
				}
				for _, ip := range ipForms(x) {
					if v.Contains(ip) != ref.contains(x) && !bad {
						bad = true
						r.Outcome("reuse-contains-mismatch")
						r.Violation("C14:unmarshal-over-previous:contains", sprintf("UnmarshalText(%q) on a value that already holds %q: probe %s reference=%v Contains=%v", s, prior, ip, ref.contains(x), v.Contains(ip)), map[string]any{"spec": s, "previous": prior, "probe": ip.String()})
					}
				}
			}
			if bad {
				break
			}
		}
		// ... and over receivers that were not produced by UnmarshalText: a copy of the value returned by ParseIPRange
		// (whose bounds may share storage)
		for _, prior := range []string{"192.168.1.10", "10.0.0.0/8", "::1", "1.2.3.4-1.2.3.9"} {
			orig, err := iprange.ParseIPRange(prior)
			if err != nil {
				break
			}
			cp := *orig
			err2 := cp.UnmarshalText([]byte(s))
			r.Transition(1)
			if (err2 == nil) != refOK {
				r.Outcome("reuse-accept-mismatch")
				r.Violation("C14:unmarshal-over-parsed:accept", sprintf("UnmarshalText(%q) on a copy of ParseIPRange(%q): err=%v, reference accept=%v", s, prior, err2, refOK), map[string]any{"spec": s, "previous": prior})
				break
			}
			pref, _ := refParse(prior)
			bad := false
			probes := []*big.Int{pref.lo, pref.hi, new(big.Int).Sub(pref.lo, one), new(big.Int).Add(pref.hi, one)}
			if refOK {
				probes = append(probes, ref.lo, ref.hi, new(big.Int).Sub(ref.lo, one), new(big.Int).Add(ref.hi, one), new(big.Int).Rsh(new(big.Int).Add(ref.lo, ref.hi), 1))
			}
			for _, x := range probes {
				if x.Sign() < 0 || x.Cmp(max128) > 0 || bad {
					continue
				}
				for _, ip := range ipForms(x) {
					if refOK && cp.Contains(ip) != ref.contains(x) && !bad {
						bad = true
						r.Outcome("reuse-contains-mismatch")
						r.Violation("C14:unmarshal-over-parsed:contains", sprintf("UnmarshalText(%q) on a copy of ParseIPRange(%q): probe %s reference=%v Contains=%v", s, prior, ip, ref.contains(x), cp.Contains(ip)), map[string]any{"spec": s, "previous": prior, "probe": ip.String()})
					}
				}
			}
			if bad {
				break
			}
		}
		if !refOK {
			r.Outcome("rejected")
			continue
		}
		if i < 3 || strings.Contains(s, "/255.255.255.252") {
			r.Sample(map[string]any{"spec": s, "ref_lo": ref.lo.Text(16), "ref_hi": ref.hi.Text(16)})
		}
		r.Outcome("accepted")
		var probes []*big.Int
		mid := new(big.Int).Add(ref.lo, ref.hi)
		mid.Rsh(mid, 1)
		// network/broadcast candidates: one below lo and one above hi are covered by +-1
		for _, base := range []*big.Int{ref.lo, ref.hi, mid} {
			for d := int64(-2); d <= 2; d++ {
				probes = append(probes, new(big.Int).Add(base, big.NewInt(d)))
			}
		}
		probes = append(probes, big.NewInt(0), new(big.Int).Set(max128),
			new(big.Int).Lsh(one, 127), addrInt(netip.MustParseAddr("::ffff:0.0.0.0")), addrInt(netip.MustParseAddr("255.255.255.255")),
			addrInt(netip.MustParseAddr("::fffe:ffff:ffff")), addrInt(netip.MustParseAddr("::1:0:0:0")),
			addrInt(netip.MustParseAddr("203.0.113.77")), addrInt(netip.MustParseAddr("2001:db8:ffff::77")))
		if r.Thorough() {
			width := new(big.Int).Sub(ref.hi, ref.lo)
			if width.Cmp(big.NewInt(4096)) <= 0 {
				lo := new(big.Int).Sub(ref.lo, big.NewInt(64))
				n := int(width.Int64()) + 128
				for k := 0; k <= n; k++ {
					probes = append(probes, new(big.Int).Add(lo, big.NewInt(int64(k))))
				}
			}
		}
		for _, x := range probes {
			for _, ip := range ipForms(x) {
				want := ref.contains(x)
				g1 := got.Contains(ip)
				g2 := um.Contains(ip)
				r.Transition(1)
				if g1 != want || g2 != want {
					r.Outcome("contains-mismatch")
					side := "inside-rejected"
					if !want {
						side = "outside-admitted"
					}
					r.Violation("C14:contains:"+side, sprintf("spec %q probe %s (len %d): reference=%v Contains=%v (via UnmarshalText=%v)", s, ip, len(ip), want, g1, g2),
						map[string]any{"spec": s, "probe": ip.String(), "form_len": len(ip)})
				} else if want {
					r.Outcome("member")
				} else {
					r.Outcome("non-member")
				}
			}
		}
	}
	// the grammar space itself: every string over a small character alphabet and every sequence over a token alphabet
	// up to a length - accept/reject must agree with the reference, accepted ones must denote the same set at and
	// around their borders. Spellings the documentation does not define (a prefix length with leading zeros or a sign, IPv6 spellings with an embedded dotted quad) are
	// left out.
	chars := []string{"1", "0", "9", ".", ":", "/", "-", "f", " "}
	toks := []string{"1", "10", "255", "256", ".", ":", "::", "/", "-", "f", "ffff", "0", "32", "33", "128", "129", "1.2.3.4", "::1"}
	maxC, maxT := 6, 4
	if r.Thorough() {
		maxC, maxT = 8, 6
	}
	r.Extra("grammar_sweep", sprintf("all strings of <= %d characters over %q and all sequences of <= %d tokens over %q", maxC, strings.Join(chars, ""), maxT, strings.Join(toks, " ")))
	undocumented := regexp.MustCompile(`/0[0-9]|/[-+]`)
	sweepIdx := 0
	sweep := func(alpha []string, maxLen int, what string) {
		var rec func(prefix string, depth int)
		rec = func(prefix string, depth int) {
			if depth > 0 {
				sweepIdx++
				mixed := false // an IPv6 spelling with an embedded dotted quad (IPv4-mapped and the like): not documented
				for _, part := range strings.FieldsFunc(prefix, func(c rune) bool { return c == '/' || c == '-' }) {
					if strings.Contains(part, ":") && strings.Contains(part, ".") {
						mixed = true
					}
				}
				if sweepIdx%r.NShards == r.Shard && !undocumented.MatchString(prefix) && !mixed {
					ref, refOK := refParse(prefix)
					got, err := iprange.ParseIPRange(prefix)
					r.ExtraAdd("grammar_sweep_strings", 1)
					r.Transition(1)
					if (err == nil) != refOK {
						r.Outcome("sweep-accept-mismatch")
						r.Violation(sprintf("C14:sweep:accept:%v->%v", refOK, err == nil), sprintf("%s %q: reference accept=%v, ParseIPRange err=%v", what, prefix, refOK, err), map[string]any{"spec": prefix})
					} else if refOK {
						r.ExtraAdd("grammar_sweep_accepted", 1)
						r.State(prefix)
						for _, x := range []*big.Int{ref.lo, ref.hi, new(big.Int).Sub(ref.lo, one), new(big.Int).Add(ref.hi, one)} {
							for _, ip := range ipForms(x) {
								if got.Contains(ip) != ref.contains(x) {
									r.Outcome("sweep-contains-mismatch")
									r.Violation("C14:sweep:contains", sprintf("%s %q probe %s: reference=%v Contains=%v", what, prefix, ip, ref.contains(x), got.Contains(ip)), map[string]any{"spec": prefix, "probe": ip.String()})
								}
							}
						}
					}
				}
			}
			if depth == maxLen {
				return
			}
			for _, a := range alpha {
				rec(prefix+a, depth+1)
			}
		}
		rec("", 0)
	}
	sweep(chars, maxC, "string")
	sweep(toks, maxT, "token sequence")
	r.Assume("net/netip and math/big are correct; undocumented spellings (+24, 024, IPv4-mapped CIDR bases, zones) are outside the alphabet")
	r.Note("traces_validated_against_impl=0: every transition is a direct call of the implementation's ParseIPRange/Contains, there is no separate model to bind")
}
