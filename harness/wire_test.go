package verifh

import (
	"encoding/binary"
	"fmt"
)

// Wire protocol re-declared from the protocol description (netiso): NOT imported from pkg/proto, so that a changed
// constant or layout in the code is a detectable difference.

const (
	opOpenFile         = 0x1224
	opReadFileCritical = 0x1225
	opReadCD2048       = 0x1226
	opReadFile         = 0x1227
	opCreateFile       = 0x1228
	opWriteFile        = 0x1229
	opOpenDir          = 0x122a
	opReadDirEntry     = 0x122b
	opDeleteFile       = 0x122c
	opMkdir            = 0x122d
	opRmdir            = 0x122e
	opReadDirEntryV2   = 0x122f
	opStatFile         = 0x1230
	opGetDirSize       = 0x1231
	opReadDir          = 0x1232
)

var opNames = map[uint16]string{
	opOpenFile: "OpenFile", opReadFileCritical: "ReadFileCritical", opReadCD2048: "ReadCD2048", opReadFile: "ReadFile",
	opCreateFile: "CreateFile", opWriteFile: "WriteFile", opOpenDir: "OpenDir", opReadDirEntry: "ReadDirEntry",
	opDeleteFile: "DeleteFile", opMkdir: "Mkdir", opRmdir: "Rmdir", opReadDirEntryV2: "ReadDirEntryV2",
	opStatFile: "StatFile", opGetDirSize: "GetDirSize", opReadDir: "ReadDir",
}

func opName(op uint16) string {
	if n, ok := opNames[op]; ok {
		return n
	}
	return fmt.Sprintf("Op%#04x", op)
}

var pathOps = []uint16{opOpenFile, opStatFile, opOpenDir, opCreateFile, opDeleteFile, opMkdir, opRmdir, opGetDirSize}

func isPathOp(op uint16) bool {
	for _, o := range pathOps {
		if o == op {
			return true
		}
	}
	return false
}

// Req is one protocol request.
type Req struct {
	Op      uint16 `json:"op"`
	Path    string `json:"path,omitempty"`
	Limit   uint32 `json:"limit,omitempty"`
	Off     uint64 `json:"off,omitempty"`
	Start   uint32 `json:"start,omitempty"`
	Count   uint32 `json:"count,omitempty"`
	Payload []byte `json:"payload,omitempty"`
	Raw     []byte `json:"raw,omitempty"` // when set, sent verbatim (malformed/truncated)
	Trunc   int    `json:"trunc,omitempty"`
}

func (r Req) String() string {
	if r.Raw != nil {
		return fmt.Sprintf("Raw(%x)", r.Raw)
	}
	switch r.Op {
	case opReadFile, opReadFileCritical:
		return fmt.Sprintf("%s(off=%d,limit=%d)", opName(r.Op), r.Off, r.Limit)
	case opReadCD2048:
		return fmt.Sprintf("ReadCD2048(start=%d,count=%d)", r.Start, r.Count)
	case opWriteFile:
		return fmt.Sprintf("WriteFile(%d bytes)", len(r.Payload))
	case opReadDir, opReadDirEntry, opReadDirEntryV2:
		return opName(r.Op)
	}
	p := r.Path
	if len(p) > 80 {
		p = fmt.Sprintf("%s...(%d bytes)", p[:60], len(p))
	}
	return fmt.Sprintf("%s(%q)", opName(r.Op), p)
}

// Encode returns the request's wire bytes: 16-byte command + path or payload.
func (r Req) Encode() []byte {
	if r.Raw != nil {
		return r.Raw
	}
	b := make([]byte, 16)
	binary.BigEndian.PutUint16(b[0:], r.Op)
	switch r.Op {
	case opReadFile, opReadFileCritical:
		binary.BigEndian.PutUint32(b[4:], r.Limit)
		binary.BigEndian.PutUint64(b[8:], r.Off)
	case opReadCD2048:
		binary.BigEndian.PutUint32(b[4:], r.Start)
		binary.BigEndian.PutUint32(b[8:], r.Count)
	case opWriteFile:
		binary.BigEndian.PutUint32(b[4:], uint32(len(r.Payload)))
		b = append(b, r.Payload...)
	case opReadDir, opReadDirEntry, opReadDirEntryV2:
	default:
		binary.BigEndian.PutUint16(b[2:], uint16(len(r.Path)))
		b = append(b, r.Path...)
	}
	return b
}

// --- response layouts (sizes in bytes) ---
const (
	szResult32    = 4   // open-dir, create, write, delete, mkdir, rmdir, read-file length
	szOpenFile    = 16  // i64 size, u64 mtime
	szStat        = 33  // i64 size, u64 mtime, ctime, atime, bool dir
	szDirEntry    = 529 // i64 size, u64 mtime, bool dir, name[512]
	szDirEntryHdr = 11  // i64 size, u16 namelen, bool dir
	szDirEntryV2  = 35  // i64 size, u64 mtime, ctime, atime, u16 namelen, bool dir
	szDirSize     = 8
	szReadDirHdr  = 8
)

func be64(b []byte) uint64 { return binary.BigEndian.Uint64(b) }
func be32(b []byte) uint32 { return binary.BigEndian.Uint32(b) }
func be16(b []byte) uint16 { return binary.BigEndian.Uint16(b) }

func i32resp(v int32) []byte {
	b := make([]byte, 4)
	binary.BigEndian.PutUint32(b, uint32(v))
	return b
}
func i64resp(v int64) []byte {
	b := make([]byte, 8)
	binary.BigEndian.PutUint64(b, uint64(v))
	return b
}

func mkReq(op uint16, path string) Req    { return Req{Op: op, Path: path} }
func rdReq(off uint64, limit uint32) Req  { return Req{Op: opReadFile, Off: off, Limit: limit} }
func rdcReq(off uint64, limit uint32) Req { return Req{Op: opReadFileCritical, Off: off, Limit: limit} }
func cdReq(start, count uint32) Req       { return Req{Op: opReadCD2048, Start: start, Count: count} }
func wrReq(payload []byte) Req            { return Req{Op: opWriteFile, Payload: payload} }
func rawReq(b []byte) Req                 { return Req{Raw: b} }
func noargReq(op uint16) Req              { return Req{Op: op} }
func truncReq(r Req, n int) Req {
	e := r.Encode()
	return Req{Op: r.Op, Raw: append([]byte{}, e[:n]...), Trunc: n}
}
