package verifh

import (
	"os"
	"path/filepath"

	"github.com/spf13/afero"

	pfs "github.com/xakep666/ps3netsrv-go/pkg/fs"
)

// isoChangingTree: ONE serving filesystem value (what a running server holds) opens the image of a directory, the
// tree then changes on disk (members rewritten in place to other sizes, replaced, added, removed - with the
// modification times as they fall, and restored as copy tools leave them), and the image is opened again in the
// same mode, then in the other mode, then in the first again. Every open is judged on its own: the independent
// reader must find exactly the tree that is on disk at that moment (C07), the volume must be valid (C08), and the
// image must equal the one a fresh generator builds for the same tree outside the declared variable fields (C18: an
// open that comes after other opens is still an open of that directory).
func isoChangingTree(r *Reporter, prop string, base string, idx *int, onlyUnchanged bool) {
	root := filepath.Join(base, "chroot")
	dir := filepath.Join(root, "CH")
	titleID := "BLES01234"
	for ci, ch := range append([]treeChange{{"nothing changes", func(string) {}}}, treeChanges()...) {
		if onlyUnchanged && ci > 0 {
			break
		}
		for _, restore := range []bool{false, true} {
			for _, ps3first := range []bool{false, true} {
				*idx++
				if !r.Mine(*idx) {
					continue
				}
				os.RemoveAll(root)
				changeBaseTree(dir)
				writeFileAbs(filepath.Join(dir, "PS3_GAME", "PARAM.SFO"), mkSFO([]sfoKV{{"TITLE_ID", titleID}}), baseTime)
				setAllTimes(dir, baseTime)
				fsys := &pfs.FS{Fs: afero.NewBasePathFs(afero.NewOsFs(), root)}
				desc := sprintf("image of a tree that changes between opens through one serving filesystem: %s (times restored=%v, first mode ps3=%v)", ch.name, restore, ps3first)
				r.State(desc)
				rep := map[string]any{"case": desc}
				judge := func(stage string, ps3 bool) {
					pre := "/***DVD***"
					if ps3 {
						pre = "/***PS3***"
					}
					var img []byte
					var announced int64
					var err error
					func() {
						defer func() {
							if p := recover(); p != nil {
								err = errPanic{p}
							}
						}()
						var f afero.File
						f, err = fsys.OpenFile(pre+"/CH", os.O_RDONLY, 0)
						if err != nil {
							return
						}
						defer f.Close()
						st, _ := f.Stat()
						announced = st.Size()
						img, err = canonicalImage(f, 1<<20, announced+1<<20)
					}()
					r.Transition(1)
					if err != nil {
						r.Outcome("changing:open-or-read-failed")
						r.Violation(prop+":changing-tree:failed", sprintf("%s; %s: opening / reading the image failed: %v", desc, stage, err), rep)
						return
					}
					var probs isoProblems
					func() {
						defer func() {
							if p := recover(); p != nil {
								probs.add("unreadable", "the independent reader gave up: %v", p)
							}
						}()
						parsed := parseAndValidateISO(memImage(img), announced, ps3, titleID)
						if prop == "C08" {
							probs = parsed.Problems
							return
						}
						if parsed.Primary == nil || parsed.Joliet == nil {
							probs.add("unreadable", "no readable primary / Joliet hierarchy (%d bytes)", len(img))
							return
						}
						compareHierarchy(memImage(img), parsed.Primary.Root, dir, false, "", &probs)
						compareHierarchy(memImage(img), parsed.Joliet.Root, dir, true, "", &probs)
					}()
					bad := false
					for sig := range probs.sigs {
						if sig == "duplicate-identifier" {
							continue
						}
						bad = true
						first := ""
						for _, l := range probs.list {
							if len(l) > len(sig) && l[:len(sig)+1] == sig+":" {
								first = l
								break
							}
						}
						r.Outcome("changing:bad:" + sig)
						r.Violation(prop+":changing-tree:"+sig, sprintf("%s; %s: %s", desc, stage, first), rep)
					}
					// differential: a generator started from scratch on the tree as it is now
					fresh, ferr := openVISO(root, "/CH", ps3)
					if ferr == nil {
						fimg, rerr := canonicalImage(fresh, 1<<20, int64(len(img))+1<<21)
						fresh.Close()
						if rerr == nil {
							a, b := append([]byte(nil), img...), append([]byte(nil), fimg...)
							isoVarMask(ps3)(0, a)
							isoVarMask(ps3)(0, b)
							if d := describeDiff(a, b); d != "" {
								bad = true
								r.Outcome("changing:differs-from-fresh-build")
								r.Violation(prop+":changing-tree:differs-from-fresh-build", sprintf("%s; %s: the image differs from the one a fresh generator builds for the same tree: %s", desc, stage, d), rep)
							}
						}
					}
					if !bad {
						r.Outcome("changing:ok")
					}
					r.Eval(1)
				}
				judge("first open", ps3first)
				judge("second open, nothing changed yet", ps3first)
				ch.do(dir)
				if restore {
					setAllTimes(dir, baseTime)
				}
				judge("open after the change, same mode", ps3first)
				judge("open after the change, other mode", !ps3first)
				judge("open after the change, first mode again", ps3first)
				r.Nontrivial(desc)
			}
		}
	}
	os.RemoveAll(root)
}
