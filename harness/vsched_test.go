package verifh

import (
	"bytes"
	"fmt"
	"runtime"
	"sort"
	"strconv"
	"sync"
	"testing/synctest"
)

// vsched: controlled cooperative scheduler for goroutines of the code under test, inside a synctest bubble.
// Every hooked operation (vnet conn/listener calls, leaf filesystem calls) parks the calling goroutine; the
// scheduler (the bubble's root goroutine) waits for exact quiescence (synctest.Wait), picks one parked actor
// according to the current choice sequence, resumes it, and repeats. Exploration is stateless DFS over choice
// sequences with iterative preemption bounding (CHESS).

func goid() uint64 {
	var buf [64]byte
	n := runtime.Stack(buf[:], false)
	// "goroutine 123 ["
	b := buf[len("goroutine "):n]
	i := bytes.IndexByte(b, ' ')
	id, _ := strconv.ParseUint(string(b[:i]), 10, 64)
	return id
}

type parkedRec struct {
	actor  int
	op     string
	resume chan struct{}
}

type schedPoint struct {
	Enabled     []int  `json:"enabled"` // canonical order: last-run actor first if enabled, then ascending
	Chosen      int    `json:"chosen"`  // index into Enabled
	Actor       int    `json:"actor"`
	Op          string `json:"op"`
	LastEnabled bool   `json:"-"` // the previously running actor was still enabled (so another choice is a preemption)
}

type Sched struct {
	mu       sync.Mutex
	parked   map[int]*parkedRec
	goids    map[uint64]int
	pass     bool // pass-through mode (after abort / for solo runs)
	points   []schedPoint
	prefix   []int
	last     int
	horizon  int
	aborted  string
	mismatch string
	expect   []schedPoint // when replaying: the recorded points to compare against (optional)
	// auto: a goroutine the harness has not registered that reaches a scheduling point is a helper started by the
	// code under test (read-ahead, background closer, ...): it becomes an actor of its own (numbered from 50 in order
	// of first appearance), so that its steps are interleaved with everyone else's like any other actor's
	auto   bool
	rootG  uint64
	helper int
}

func newSched(prefix []int) *Sched {
	return &Sched{parked: map[int]*parkedRec{}, goids: map[uint64]int{}, prefix: prefix, last: -1, horizon: 4000, rootG: goid()}
}

// register binds the calling goroutine to an actor id.
func (s *Sched) register(actor int) {
	g := goid()
	s.mu.Lock()
	s.goids[g] = actor
	s.mu.Unlock()
}

// Point parks the calling goroutine until the scheduler resumes it.
func (s *Sched) Point(op string) {
	if s == nil {
		return
	}
	g := goid()
	s.mu.Lock()
	if s.pass {
		s.mu.Unlock()
		return
	}
	actor, ok := s.goids[g]
	if !ok && s.auto && g != s.rootG {
		actor, ok = 50+s.helper, true
		s.helper++
		s.goids[g] = actor
	}
	if !ok {
		// a goroutine the harness does not know: let it run (e.g. harness-side fs calls)
		s.mu.Unlock()
		return
	}
	p := &parkedRec{actor: actor, op: op, resume: make(chan struct{})}
	s.parked[actor] = p
	s.mu.Unlock()
	<-p.resume
}

// Run drives the execution until no actor is parked. Returns the recorded points.
func (s *Sched) Run() {
	for {
		synctest.Wait()
		s.mu.Lock()
		if len(s.parked) == 0 {
			s.mu.Unlock()
			return
		}
		var ids []int
		for a := range s.parked {
			ids = append(ids, a)
		}
		sort.Ints(ids)
		lastEnabled := false
		for i, a := range ids {
			if a == s.last {
				// move to front
				copy(ids[1:i+1], ids[:i])
				ids[0] = a
				lastEnabled = true
				break
			}
		}
		k := len(s.points)
		choice := 0
		if k < len(s.prefix) {
			choice = s.prefix[k]
		}
		if choice >= len(ids) {
			s.mismatch = fmt.Sprintf("replay divergence at point %d: choice %d but only %d enabled actors %v", k, choice, len(ids), ids)
			choice = 0
		}
		actor := ids[choice]
		p := s.parked[actor]
		delete(s.parked, actor)
		pt := schedPoint{Enabled: ids, Chosen: choice, Actor: actor, Op: p.op, LastEnabled: lastEnabled}
		if s.expect != nil && k < len(s.expect) && (s.expect[k].Actor != actor || s.expect[k].Op != p.op) {
			s.mismatch = fmt.Sprintf("replay divergence at point %d: recorded (actor %d, %s), now (actor %d, %s)", k, s.expect[k].Actor, s.expect[k].Op, actor, p.op)
		}
		s.points = append(s.points, pt)
		s.last = actor
		if len(s.points) > s.horizon {
			// livelock horizon: switch to pass-through so that everything drains
			s.aborted = "horizon"
			s.pass = true
			for _, q := range s.parked {
				close(q.resume)
			}
			s.parked = map[int]*parkedRec{}
			close(p.resume)
			s.mu.Unlock()
			synctest.Wait()
			return
		}
		s.mu.Unlock()
		close(p.resume)
	}
}

// preemptionsBefore counts preemptions among points[0:i].
func preemptionsBefore(points []schedPoint, i int) int {
	n := 0
	for _, p := range points[:i] {
		if p.LastEnabled && p.Chosen != 0 {
			n++
		}
	}
	return n
}

func choicesOf(points []schedPoint) []int {
	c := make([]int, len(points))
	for i, p := range points {
		c[i] = p.Chosen
	}
	return c
}

// exploreSchedules enumerates all schedules with at most `bound` preemptions. run executes one schedule for the
// given choice prefix and returns the recorded points; visit is called once per complete execution.
// shard/nshards distribute the first-level subtrees. Returns the number of executions and whether it completed.
func exploreSchedules(bound int, shard, nshards int, run func(prefix []int) []schedPoint, stop func() bool) (execs int, complete bool) {
	complete = true
	var rec func(prefix []int, level int)
	sub := 0
	rec = func(prefix []int, level int) {
		if stop != nil && stop() {
			complete = false
			return
		}
		points := run(prefix)
		execs++
		for i := len(prefix); i < len(points); i++ {
			p := points[i]
			cost := preemptionsBefore(points, i)
			if p.LastEnabled {
				cost++
			}
			if cost > bound {
				continue
			}
			for alt := 1; alt < len(p.Enabled); alt++ {
				if level == 0 {
					sub++
					if sub%nshards != shard {
						continue
					}
				}
				np := append(append([]int{}, choicesOf(points[:i])...), alt)
				rec(np, level+1)
				if !complete {
					return
				}
			}
		}
	}
	if shard == 0 {
		rec(nil, 0)
	} else {
		// other shards: run the default schedule only to enumerate first-level subtrees, do not count it
		points := run(nil)
		for i := 0; i < len(points); i++ {
			p := points[i]
			cost := preemptionsBefore(points, i)
			if p.LastEnabled {
				cost++
			}
			if cost > bound {
				continue
			}
			for alt := 1; alt < len(p.Enabled); alt++ {
				sub++
				if sub%nshards != shard {
					continue
				}
				np := append(append([]int{}, choicesOf(points[:i])...), alt)
				rec(np, 1)
				if !complete {
					return
				}
			}
		}
	}
	return
}
