package verifh

import (
	"encoding/hex"
	"os"
	"path/filepath"
	"strings"
	"testing"
	"time"

	"github.com/spf13/afero"

	pfs "github.com/xakep666/ps3netsrv-go/pkg/fs"
)

// Shared machinery of C07 (content) and C08 (structure): enumerate trees, build the image through the real
// generator with a controlled directory enumeration order, read it canonically, run the reference reader,
// the validator and the content comparison.

type isoCaseResult struct {
	err       error
	announced int64
	img       isoImage
	parsed    *isoParsed
	content   isoProblems
}

func kthPerm(n, k int) []int {
	idx := make([]int, n)
	for i := range idx {
		idx[i] = i
	}
	if k == 0 || n < 2 {
		return idx
	}
	if n > 12 {
		// too many orders to enumerate: a fixed scramble (stride coprime to n, offset k)
		stride := 7
		for n%stride == 0 {
			stride += 4
		}
		out := make([]int, n)
		for i := range out {
			out[i] = (i*stride + k) % n
		}
		return out
	}
	f := 1
	for i := 2; i <= n; i++ {
		f *= i
	}
	k %= f
	out := make([]int, 0, n)
	for i := n; i > 0; i-- {
		f /= i
		j := k / f
		k %= f
		out = append(out, idx[j])
		idx = append(idx[:j], idx[j+1:]...)
	}
	return out
}

type viewImage struct {
	v    afero.File
	size int64
}

func (vi viewImage) Size() int64 { return vi.size }
func (vi viewImage) At(off int64, n int) []byte {
	b := make([]byte, n)
	vi.v.ReadAt(b, off)
	return b
}

// runISOCase builds the image of root/rel. permIdx selects the enumeration order applied to every directory
// listing (sorted order permuted by the permIdx-th permutation).
func runISOCase(root, rel string, ps3 bool, permIdx int, titleID string, huge bool, readCap int, viaFS bool) (res *isoCaseResult) {
	res = &isoCaseResult{}
	leaf := newVFs(afero.NewOsFs(), "leaf")
	leaf.record = false
	leaf.SortDirs = true
	leaf.Perm = func(n int) []int { return kthPerm(n, permIdx) }
	if readCap > 0 {
		// the filesystem legally returns at most readCap bytes per Read
		leaf.Hook = func(e FsEvent) *FsFault {
			if e.Op == "Read" && e.N > readCap {
				return &FsFault{Short: readCap}
			}
			return nil
		}
	}
	var v afero.File
	func() {
		defer func() {
			if p := recover(); p != nil {
				res.err = errPanic{p}
			}
		}()
		if viaFS {
			// the way the server opens it: through the serving filesystem (which decrypts disc images it recognises -
			// but never the members of a generated image) under the virtual prefix
			pre := "/***DVD***"
			if ps3 {
				pre = "/***PS3***"
			}
			v, res.err = (&pfs.FS{Fs: afero.NewBasePathFs(leaf, root)}).OpenFile(pre+rel, os.O_RDONLY, 0)
			return
		}
		var vi *pfs.VirtualISO
		vi, res.err = pfs.NewVirtualISO(afero.NewBasePathFs(leaf, root), rel, ps3)
		if res.err == nil {
			v = vi
		}
	}()
	if res.err != nil {
		return res
	}
	defer v.Close()
	st, _ := v.Stat()
	res.announced = st.Size()
	if huge {
		res.img = viewImage{v, res.announced}
	} else {
		img, err := canonicalImage(v, 1<<20, res.announced+1<<20)
		if err != nil {
			res.err = err
			return res
		}
		res.img = memImage(img)
	}
	func() {
		defer func() {
			if p := recover(); p != nil {
				res.err = errPanic{p}
			}
		}()
		res.parsed = parseAndValidateISO(res.img, res.announced, ps3, titleID)
		if res.parsed.Primary != nil {
			compareHierarchy(res.img, res.parsed.Primary.Root, filepath.Join(root, rel), false, "", &res.content)
		}
		if res.parsed.Joliet != nil {
			compareHierarchy(res.img, res.parsed.Joliet.Root, filepath.Join(root, rel), true, "", &res.content)
		}
		// a reader that extracts lazily from the live view, several files at a time in alternating pieces (the image
		// read in one go above was just tied to the source tree): every piece equals the same piece of that image
		if !huge && res.parsed.Primary != nil && res.parsed.Joliet != nil {
			for hi, h := range []*isoHierarchy{res.parsed.Primary, res.parsed.Joliet} {
				var files []*isoNode
				var walk func(n *isoNode)
				walk = func(n *isoNode) {
					for _, c := range n.Children {
						if c.IsDir {
							walk(c)
						} else if c.Size > 0 && len(files) < 8 {
							files = append(files, c)
						}
					}
				}
				walk(h.Root)
				live := viewImage{v, res.announced}
			pieces:
				for c := int64(0); c < 200; c++ {
					progressed := false
					for _, n := range files {
						off := c * 1000
						if off >= n.Size {
							continue
						}
						progressed = true
						cnt := int(min(1000, n.Size-off))
						if d := describeDiff(n.readAt(live, off, cnt), n.readAt(res.img, off, cnt)); d != "" {
							res.content.add("interleaved-extraction", "file %q extracted in pieces alternating with %d other files (hierarchy %d): piece at file offset %d differs from the image read in one go: %s", n.Name, len(files)-1, hi, off, d)
							break pieces
						}
					}
					if !progressed {
						break
					}
				}
			}
		}
	}()
	return res
}

type errPanic struct{ v any }

func (e errPanic) Error() string { return sprintf("PANIC: %v", e.v) }

type isoCase struct {
	desc    string
	build   func(dir string)
	ps3     bool
	perm    int
	titleID string
	huge    bool
	family  string
	readCap int  // > 0: every underlying Read returns at most this many bytes
	viaFS   bool // open through the serving filesystem under the virtual prefix instead of calling the generator
}

// isoTreeCases enumerates the tree space shared by C07/C08/C18.
func isoTreeCases(maxNodes int, maxNodesPerm int, sizes []int64, visit func(c isoCase)) {
	for n := 0; n <= maxNodes; n++ {
		enumTrees(n, sizes, func(tr Tree) {
			// maximal number of children of one directory decides how many enumeration orders exist
			cnt := map[int]int{}
			maxc := 0
			for _, nd := range tr.Nodes {
				cnt[nd.Parent]++
				if cnt[nd.Parent] > maxc {
					maxc = cnt[nd.Parent]
				}
			}
			for _, ps3 := range []bool{false, true} {
				nperm := 1
				k := maxc
				if ps3 && cnt[-1]+1 > k {
					k = cnt[-1] + 1
				}
				if n <= maxNodesPerm {
					for i := 2; i <= k; i++ {
						nperm *= i
					}
				}
				for pi := 0; pi < nperm; pi++ {
					if ps3 && n > maxNodesPerm {
						continue
					}
					tr := tr
					visit(isoCase{desc: sprintf("tree[%s] ps3=%v perm=%d", tr.String(), ps3, pi), ps3: ps3, perm: pi, titleID: "BLES01234", family: "trees",
						build: func(dir string) {
							tr.Materialize(dir)
							if ps3 {
								writeFileAbs(filepath.Join(dir, "PS3_GAME", "PARAM.SFO"), mkSFO([]sfoKV{{"TITLE_ID", "BLES01234"}}), baseTime)
							}
						}})
				}
			}
		})
	}
}

// isoFamilyCases: one-dimensional families walked exhaustively along their dimension.
func isoFamilyCases(thorough bool, structural bool, visit func(c isoCase)) {
	maxEntries, maxDirs := 120, 300
	if thorough {
		maxEntries, maxDirs = 300, 1100
	}
	for n := 1; n <= maxEntries; n++ {
		n := n
		visit(isoCase{desc: sprintf("entries-per-dir=%d", n), family: "entries", build: func(dir string) {
			for i := 0; i < n; i++ {
				if i%5 == 4 {
					must(os.MkdirAll(filepath.Join(dir, sprintf("dir%03d", i)), 0o755))
				} else {
					mkFileAbs(filepath.Join(dir, sprintf("file%03d.dat", i)), int64(i%4)*1000+int64(i%3), byte(i), baseTime.Add(time1(i%50)))
				}
			}
		}})
	}
	// exact-fit family: name length L x entry count n such that the records of a directory end exactly on a
	// sector boundary in the primary or the Joliet hierarchy (and the neighbouring counts)
	maxL := 60
	if thorough {
		maxL = 110
	}
	for L := 1; L <= maxL; L++ {
		rsJ := 34 + 2*L
		rsP := 33 + L + (L+1)%2
		cand := map[int]bool{}
		for _, rs := range []int{rsJ, rsP} {
			// first sector holds '.' and '..' (68 bytes); later sectors start empty
			pos, n := 68, 0
			for n < 130 {
				if pos+rs > 2048 {
					pos = 0
				}
				pos += rs
				n++
				if pos == 2048 {
					cand[n-1], cand[n], cand[n+1] = true, true, true
				}
			}
		}
		for n := range cand {
			if n < 1 {
				continue
			}
			L, n := L, n
			visit(isoCase{desc: sprintf("exact-fit name-length=%d entries=%d", L, n), family: "exactfit", build: func(dir string) {
				must(os.MkdirAll(filepath.Join(dir, "sub"), 0o755))
				for i := 0; i < n; i++ {
					mkFileAbs(filepath.Join(dir, "sub", sprintf("%0*d", L, i)), int64(i%3)*700+1, byte(i), baseTime)
				}
				mkFileAbs(filepath.Join(dir, "top.txt"), 3000, 9, baseTime)
				must(os.MkdirAll(filepath.Join(dir, "zlast", "deep"), 0o755))
				mkFileAbs(filepath.Join(dir, "zlast", "deep", "f.bin"), 2049, 8, baseTime)
			}})
		}
	}
	// names that are string prefixes of sibling names, with nesting below the longer one
	visit(isoCase{desc: "prefix-related directory names", family: "prefixnames", build: func(dir string) {
		for _, p := range []string{"data/x.bin", "data_en/voice/v.bin", "data_en/voice/deep/w.bin", "dat/y.bin", "dir1/a/f.bin", "dir10/a/g.bin", "dir10/b/h.bin", "dir1/a0/i.bin", "data.bin", "dir"} {
			if strings.Contains(filepath.Base(p), ".") {
				mkFileAbs(filepath.Join(dir, p), int64(len(p))*100+1, byte(len(p)), baseTime)
			} else {
				must(os.MkdirAll(filepath.Join(dir, p), 0o755))
			}
		}
	}})
	for d := 0; d <= 8; d++ {
		d := d
		visit(isoCase{desc: sprintf("chain-depth=%d", d), family: "depth", build: func(dir string) {
			p := dir
			for i := 0; i < d; i++ {
				p = filepath.Join(p, sprintf("lv%d", i))
				must(os.MkdirAll(p, 0o755))
				mkFileAbs(filepath.Join(p, "f.bin"), int64(i*700+1), byte(i), baseTime)
			}
		}})
	}
	for _, nd := range []int{1, 2, 50, 51, 52, 100, 255, 256, 257, maxDirs} {
		nd := nd
		visit(isoCase{desc: sprintf("directories=%d", nd), family: "dirs", build: func(dir string) {
			for i := 0; i < nd; i++ {
				must(os.MkdirAll(filepath.Join(dir, sprintf("d%04d", i/40), sprintf("s%04d", i)), 0o755))
			}
			mkFileAbs(filepath.Join(dir, "d0000", "s0000", "x.bin"), 3000, 1, baseTime)
		}})
	}
	// many non-empty files spread over a few directories (more than any plausible cap on cached handles or entries)
	for _, nf := range []int{129, 300, 1100} {
		nf := nf
		if nf > 300 && !thorough {
			continue
		}
		visit(isoCase{desc: sprintf("files=%d", nf), family: "manyfiles", build: func(dir string) {
			for i := 0; i < nf; i++ {
				mkFileAbs(filepath.Join(dir, sprintf("g%d", i%3), sprintf("f%04d.bin", i)), int64(1+i%5*700), byte(i), baseTime)
			}
		}})
	}
	// sizes around the transfer buffer
	for _, sz := range []int64{65535, 65536, 65537, 131073, 1<<20 + 1} {
		sz := sz
		visit(isoCase{desc: sprintf("file-size=%d", sz), family: "sizes", build: func(dir string) {
			mkFileAbs(filepath.Join(dir, "a.bin"), sz, 5, baseTime)
			mkFileAbs(filepath.Join(dir, "b.bin"), 1, 6, baseTime)
		}})
	}
	// files around 4 GiB (multi-extent) - sparse
	bigs := []int64{0xFFFFF800 - 1, 0xFFFFF800, 0xFFFFF800 + 1, 0xFFFFFFFF, 0x100000000, 0x100000001, 2*0xFFFFF800 - 1, 2 * 0xFFFFF800, 2*0xFFFFF800 + 1}
	// sizes just below and at multiples of 4 GiB (where an extent count computed with 2^32-1 instead of the extent
	// size differs, and where 32-bit length fields wrap)
	bigs = append(bigs, 1<<33-2048, 1<<33-2, 1<<33)
	if thorough {
		bigs = append(bigs, 3*0xFFFFF800, 3*0xFFFFF800+2048, 9<<30, 1<<33-2049, 1<<33-1, 3<<32-3072, 3<<32, 1<<34-1024)
	}
	for _, sz := range bigs {
		sz := sz
		visit(isoCase{desc: sprintf("big-file=%d", sz), family: "big", huge: true, build: func(dir string) {
			mkFileAbs(filepath.Join(dir, "small.bin"), 100, 2, baseTime)
			mkFileAbs(filepath.Join(dir, "big.bin"), sz, 7, baseTime)
			mkFileAbs(filepath.Join(dir, "zz", "after.bin"), 2049, 3, baseTime)
		}})
	}
	// a multi-extent file in a crowded directory whose listing comes back in scrambled order
	for _, pm := range []int{1, 5} {
		pm := pm
		visit(isoCase{desc: sprintf("big file among 20 files, scrambled listing %d", pm), family: "bigcrowd", huge: true, perm: pm, build: func(dir string) {
			for i := 0; i < 20; i++ {
				mkFileAbs(filepath.Join(dir, "d", sprintf("f%02d.bin", i)), int64(i*300+1), byte(i), baseTime)
			}
			mkFileAbs(filepath.Join(dir, "d", "g_big.bin"), 2*0xFFFFF800+5, 7, baseTime)
			mkFileAbs(filepath.Join(dir, "d", "zz_after.bin"), 2049, 3, baseTime)
		}})
	}
	// source trees that contain disc images, key files and CD images: members of a generated image are stored byte
	// for byte (never decrypted or masked), whether the generator is called directly or through the serving filesystem
	for _, via := range []bool{false, true} {
		for _, ps3 := range []bool{false, true} {
			via, ps3 := via, ps3
			visit(isoCase{desc: sprintf("tree with disc images, via serving fs=%v ps3=%v", via, ps3), family: "discimages", viaFS: via, ps3: ps3, titleID: "BLES01234", build: func(dir string) {
				pairs := []uint32{0, 2, 4, 5}
				plain := patBytes(61, 0, 6*2048)
				copy(plain, regionTable(pairs))
				copy(plain[0xF70:], wmEnc)
				copy(plain[0xF80:], c10Keys[1])
				writeFileAbs(filepath.Join(dir, "backup", "enc3k3y.iso"), buildEncImage(plain, pairs, c10Keys[1]), baseTime)
				dec := patBytes(62, 0, 3*2048)
				copy(dec[0xF70:], wmDec)
				writeFileAbs(filepath.Join(dir, "backup", "dec3k3y.bin"), dec, baseTime)
				disk, _ := mkRedumpImage(6, pairs, c10Keys[2], 63)
				writeFileAbs(filepath.Join(dir, "PS3ISO", "game.iso"), disk, baseTime)
				writeFileAbs(filepath.Join(dir, "PS3ISO", "game.dkey"), []byte(hex.EncodeToString(c10Keys[2])), baseTime)
				writeFileAbs(filepath.Join(dir, "REDKEY", "other.dkey"), []byte(hex.EncodeToString(c10Keys[3])), baseTime)
				disk2, _ := mkRedumpImage(6, pairs, c10Keys[3], 64)
				writeFileAbs(filepath.Join(dir, "PS3ISO", "other.iso"), disk2, baseTime)
				if ps3 {
					writeFileAbs(filepath.Join(dir, "PS3_GAME", "PARAM.SFO"), mkSFO([]sfoKV{{"TITLE_ID", "BLES01234"}}), baseTime)
				}
			}})
		}
	}
	// sibling names that coincide after the mapping to ISO 9660 identifiers (upper-casing, '_' for other characters):
	// the image is refused, or it holds every one of them with its own content
	for ci, names := range [][]string{{"sub", "SUB"}, {"a b", "a_b"}, {"data", "Data", "DATA"}, {"x.bin", "X.BIN"}} {
		names := names
		for _, asDirs := range []bool{true, false} {
			asDirs := asDirs
			visit(isoCase{desc: sprintf("colliding sibling names %v dirs=%v", names, asDirs), family: "collide", build: func(dir string) {
				for i, n := range names {
					if asDirs {
						mkFileAbs(filepath.Join(dir, n, sprintf("in%d.bin", i)), int64(100+i), byte(ci*7+i), baseTime)
						mkFileAbs(filepath.Join(dir, n, "same.bin"), int64(2049+i), byte(ci*7+i+1), baseTime)
					} else {
						mkFileAbs(filepath.Join(dir, n), int64(300+i*2048), byte(ci*7+i), baseTime)
					}
				}
				mkFileAbs(filepath.Join(dir, "zz_after", "f.bin"), 10, 9, baseTime)
			}})
		}
	}
	// symbolic links the operator placed in the tree are followed, as everywhere in the server: a link to a file
	// is a file with the target's size and bytes, a link to a directory is a directory with the target's content
	for _, abs := range []bool{false, true} {
		abs := abs
		visit(isoCase{desc: sprintf("symlinks absolute=%v", abs), family: "symlinks", build: func(dir string) {
			mkFileAbs(filepath.Join(dir, "store", "real.bin"), 70000, 5, baseTime)
			mkFileAbs(filepath.Join(dir, "store", "tiny.bin"), 3, 6, baseTime)
			mkFileAbs(filepath.Join(dir, "store", "inner", "deep.bin"), 2049, 7, baseTime)
			tgt := func(rel, from string) string {
				if abs {
					return filepath.Join(dir, rel)
				}
				r, err := filepath.Rel(filepath.Join(dir, from), filepath.Join(dir, rel))
				must(err)
				return r
			}
			must(os.Symlink(tgt("store/real.bin", "."), filepath.Join(dir, "linked.bin")))
			must(os.Symlink(tgt("store/tiny.bin", "."), filepath.Join(dir, "a-rather-long-name-for-a-link-to-a-three-byte-file.bin")))
			must(os.Symlink(tgt("store/inner", "."), filepath.Join(dir, "dlink")))
			must(os.MkdirAll(filepath.Join(dir, "sub"), 0o755))
			must(os.Symlink(tgt("store", "sub"), filepath.Join(dir, "sub", "again")))
			must(os.Symlink(tgt("linked.bin", "sub"), filepath.Join(dir, "sub", "hop.bin"))) // link to a link
		}})
	}
	if !structural {
		return
	}
	// names: length 1..255 (file and directory), non-ASCII, colliding after mapping
	for l := 1; l <= 255; l++ {
		l := l
		if !thorough && l > 40 && l%7 != 0 && (l < 100 || l > 115) && l != 255 && l != 254 && l != 128 && l != 127 && l != 64 && l != 65 {
			continue
		}
		visit(isoCase{desc: sprintf("name-length=%d", l), family: "namelen", build: func(dir string) {
			mkFileAbs(filepath.Join(dir, strings.Repeat("n", l)), 10, 1, baseTime)
			must(os.MkdirAll(filepath.Join(dir, strings.Repeat("d", l)), 0o755))
			mkFileAbs(filepath.Join(dir, strings.Repeat("d", l), "in.bin"), 5, 2, baseTime)
		}})
		// the limits for file and for directory names are checked in different places: each kind alone, too, with
		// ordinary neighbours before and behind it in the same directory
		visit(isoCase{desc: sprintf("file-name-length=%d", l), family: "namelen", build: func(dir string) {
			mkFileAbs(filepath.Join(dir, "a.bin"), 7, 3, baseTime)
			mkFileAbs(filepath.Join(dir, strings.Repeat("n", l)), 10, 1, baseTime)
			mkFileAbs(filepath.Join(dir, "zz.bin"), 2049, 4, baseTime)
			mkFileAbs(filepath.Join(dir, "sub", strings.Repeat("m", l)), 11, 5, baseTime)
		}})
		visit(isoCase{desc: sprintf("dir-name-length=%d", l), family: "namelen", build: func(dir string) {
			mkFileAbs(filepath.Join(dir, "a.bin"), 7, 3, baseTime)
			must(os.MkdirAll(filepath.Join(dir, strings.Repeat("d", l)), 0o755))
			mkFileAbs(filepath.Join(dir, strings.Repeat("d", l), "in.bin"), 5, 2, baseTime)
			mkFileAbs(filepath.Join(dir, "zz.bin"), 2049, 4, baseTime)
		}})
	}
	visit(isoCase{desc: "names non-ascii", family: "names", build: func(dir string) {
		mkFileAbs(filepath.Join(dir, "файл.bin"), 10, 1, baseTime)
		mkFileAbs(filepath.Join(dir, "日本語"), 2049, 2, baseTime)
		must(os.MkdirAll(filepath.Join(dir, "dïr"), 0o755))
		mkFileAbs(filepath.Join(dir, "dïr", "ö"), 1, 3, baseTime)
	}})
	visit(isoCase{desc: "names colliding files", family: "names", build: func(dir string) {
		mkFileAbs(filepath.Join(dir, "c d"), 10, 1, baseTime)
		mkFileAbs(filepath.Join(dir, "c_d"), 20, 2, baseTime)
		mkFileAbs(filepath.Join(dir, "ab"), 30, 3, baseTime)
		mkFileAbs(filepath.Join(dir, "AB"), 40, 4, baseTime)
	}})
	visit(isoCase{desc: "names colliding dirs", family: "names", build: func(dir string) {
		for i, n := range []string{"x y", "x_y", "xy", "XY"} {
			must(os.MkdirAll(filepath.Join(dir, n), 0o755))
			mkFileAbs(filepath.Join(dir, n, "f"), int64(i+1), byte(i), baseTime)
		}
	}})
	// volume name = directory name: length family (the image root directory's own name)
	for _, l := range []int{1, 15, 16, 17, 31, 32, 33, 64, 200} {
		l := l
		visit(isoCase{desc: sprintf("root-name-length=%d", l), family: "rootname", build: func(dir string) {
			mkFileAbs(filepath.Join(dir, "f.bin"), 10, 1, baseTime)
		}})
	}
	// PARAM.SFO: key orders and number of entries
	keys := []sfoKV{{"TITLE_ID", "BCES00104"}, {"TITLE", "Some Game"}, {"APP_VER", "01.00"}, {"CATEGORY", "DG"}, {"VERSION", "01.02"}, {"PARENTAL_LEVEL", "5"}, {"RESOLUTION", "63"}, {"SOUND_FORMAT", "279"}}
	for n := 1; n <= 8; n++ {
		for rot := 0; rot < n; rot++ {
			kv := append([]sfoKV{}, keys[:n]...)
			kv = append(kv[rot:], kv[:rot]...)
			if n == 3 && rot == 1 {
				kv[0], kv[2] = kv[2], kv[0]
			}
			visit(isoCase{desc: sprintf("sfo entries=%d rotation=%d", n, rot), family: "sfo", ps3: true, titleID: "BCES00104", build: func(dir string) {
				writeFileAbs(filepath.Join(dir, "PS3_GAME", "PARAM.SFO"), mkSFO(kv), baseTime)
				mkFileAbs(filepath.Join(dir, "PS3_GAME", "USRDIR", "EBOOT.BIN"), 4097, 1, baseTime)
			}})
		}
	}
	// the filesystem returns short reads (network/FUSE mounts): same image, in particular the same product code
	for _, rc := range []int{1, 2, 3, 4, 5, 6, 7, 8, 9, 15, 16, 17, 63, 2047} {
		rc := rc
		visit(isoCase{desc: sprintf("sfo with reads capped at %d bytes", rc), family: "shortreads", ps3: true, titleID: "BLUS12345", readCap: rc, build: func(dir string) {
			writeFileAbs(filepath.Join(dir, "PS3_GAME", "PARAM.SFO"), mkSFO([]sfoKV{{"APP_VER", "01.00"}, {"CATEGORY", "DG"}, {"TITLE", "Some Game"}, {"TITLE_ID", "BLUS12345"}, {"VERSION", "01.02"}}), baseTime)
			mkFileAbs(filepath.Join(dir, "PS3_GAME", "USRDIR", "EBOOT.BIN"), 4097, 1, baseTime)
			mkFileAbs(filepath.Join(dir, "data.bin"), 70000, 2, baseTime)
		}})
	}
	for _, tid := range []string{"BLUS30001", "NPEB00001", "ABCD12345"} {
		tid := tid
		visit(isoCase{desc: "sfo title " + tid, family: "sfo", ps3: true, titleID: tid, build: func(dir string) {
			writeFileAbs(filepath.Join(dir, "PS3_GAME", "PARAM.SFO"), mkSFO([]sfoKV{{"CATEGORY", "DG"}, {"TITLE_ID", tid}}), baseTime)
		}})
	}
}

func runISOProperty(t *testing.T, prop string) {
	r := NewReporter(t)
	defer r.Done()
	structural := prop == "C08"
	if structural {
		r.Rule("every tree with <= N nodes (dirs / files of size 0,1,2047,2048,2049) x every enumeration order of directory listings x {plain, PS3}; families: 1..300 entries per directory, chain depth 0..8, up to 1100 directories, name length 1..255, non-ASCII and colliding names, root-name length, symbolic links, sparse files around 4 GiB..9 GiB, PARAM.SFO key orders/entry counts, every Read capped at 1..2047 bytes; for every 29th case also the image the real make-iso writes to a file and to standard output; a tree that changes between opens through one serving filesystem (12 kinds of change x times restored or not x both mode orders); oracle = strict ECMA-119/Joliet/PS3 validator written from the standard; distinct by case description")
	} else {
		r.Rule("every tree with <= N nodes (dirs / files of size 0,1,2047,2048,2049) x every enumeration order of directory listings x {plain, PS3}; families: 1..300 entries per directory, chain depth 0..8, up to 1100 directories, sizes around 64 KiB, sparse files around 4 GiB..9 GiB, symbolic links to files and directories (relative, absolute, chained), trees holding disc images and key files (generator called directly and through the serving filesystem); for every 29th case also the image the real make-iso writes to a file and to standard output; a tree that changes between opens through one serving filesystem (12 kinds of change x times restored or not x both mode orders, five opens each, also compared with a fresh build); oracle = independent ISO 9660/Joliet reader: both hierarchies hold exactly the source entries with exact sizes and bytes; distinct by case description")
	}
	base := filepath.Join(scratchBase(), sprintf("verifh-%s-%d", strings.ToLower(prop), os.Getpid()))
	root := filepath.Join(base, "root")
	defer os.RemoveAll(base)
	maxNodes, maxPerm := 4, 3
	if r.Thorough() {
		maxNodes, maxPerm = 5, 4
	}
	idx := 0
	do := func(c isoCase) {
		idx++
		if !r.Mine(idx) {
			return
		}
		if idx%64 == 0 && r.TimeUp() {
			return
		}
		if !r.exhaustiveOK() {
			return
		}
		os.RemoveAll(root)
		rel := "/T"
		if c.family == "rootname" {
			var l int
			sscan(c.desc, "root-name-length=%d", &l)
			rel = "/" + strings.Repeat("R", l)
		}
		dir := filepath.Join(root, rel)
		must(os.MkdirAll(dir, 0o755))
		c.build(dir)
		res := runISOCase(root, rel, c.ps3, c.perm, c.titleID, c.huge, c.readCap, c.viaFS)
		r.Transition(1)
		r.State(c.desc)
		rep := map[string]any{"case": c.desc, "ps3": c.ps3, "enumeration_perm": c.perm}
		if res.err != nil {
			if _, isPanic := res.err.(errPanic); isPanic || strings.HasPrefix(res.err.Error(), "PANIC") {
				r.Outcome("panic")
				r.Violation(prop+":panic:"+c.family, c.desc+": "+res.err.Error(), rep)
				return
			}
			// creation failed with an error: the properties quantify over trees for which creation succeeds,
			// but for plain small trees a failure is itself wrong
			r.Outcome("create-error:" + c.family)
			if c.family != "namelen" && c.family != "names" && c.family != "rootname" && c.family != "collide" {
				r.Violation(prop+":create-failed:"+c.family, c.desc+": image creation/reading failed: "+res.err.Error(), rep)
			}
			return
		}
		r.Nontrivial(c.desc)
		r.Eval(1)
		probs := res.content
		if structural {
			probs = res.parsed.Problems
		}
		ok := true
		for sig := range probs.sigs {
			if sig == "duplicate-identifier" {
				r.Outcome("duplicate-identifier(not judged)")
				continue
			}
			ok = false
			var first string
			for _, l := range probs.list {
				if strings.HasPrefix(l, sig+":") {
					first = l
					break
				}
			}
			r.Outcome("bad:" + sig)
			r.Violation(prop+":"+sig+":"+c.family, c.desc+": "+first, rep)
		}
		if ok {
			r.Outcome("ok:" + c.family)
		}
		// "... or written by make-iso": for a slice of the cases the real tool writes the image to a file and to standard
		// output; both are judged by the same reader / validator as the library image
		if ok && binPath() != "" && !c.huge && c.readCap == 0 && !c.viaFS && (idx/r.NShards)%29 == 0 {
			args := []string{"make-iso"}
			if c.ps3 {
				args = append(args, "--ps3-mode")
			}
			outDir := filepath.Join(base, "out")
			must(os.MkdirAll(outDir, 0o755))
			for _, target := range []string{"file", "stdout"} {
				outFile, soFile := filepath.Join(outDir, "t.iso"), filepath.Join(outDir, "stdout.iso")
				os.Remove(outFile)
				var code int
				var stderr string
				var err error
				if target == "file" {
					code, _, stderr, err = runTool(append(args, dir, outFile), cleanEnv(base), base, "", 120*time.Second)
				} else {
					code, _, stderr, err = runTool(append(args, dir, "-"), cleanEnv(base), base, soFile, 120*time.Second)
					outFile = soFile
				}
				r.Trace(1)
				if err != nil || code != 0 {
					r.Outcome("make-iso-failed")
					r.Violation(prop+":make-iso-failed:"+c.family, sprintf("%s: make-iso to %s: exit %d %v %s", c.desc, target, code, err, lastLines(stderr, 3)), rep)
					break
				}
				data, _ := os.ReadFile(outFile)
				var tp isoProblems
				func() {
					defer func() {
						if p := recover(); p != nil {
							tp.add("unreadable", "the independent reader gave up on the tool's output: %v", p)
						}
					}()
					parsed := parseAndValidateISO(memImage(data), int64(len(data)), c.ps3, c.titleID)
					if structural {
						tp = parsed.Problems
						return
					}
					if parsed.Primary == nil || parsed.Joliet == nil {
						tp.add("unreadable", "the tool's output has no readable primary / Joliet hierarchy (%d bytes)", len(data))
						return
					}
					compareHierarchy(memImage(data), parsed.Primary.Root, dir, false, "", &tp)
					compareHierarchy(memImage(data), parsed.Joliet.Root, dir, true, "", &tp)
				}()
				bad := false
				for sig := range tp.sigs {
					if sig == "duplicate-identifier" {
						continue
					}
					bad = true
					first := ""
					for _, l := range tp.list {
						if strings.HasPrefix(l, sig+":") {
							first = l
							break
						}
					}
					r.Outcome("make-iso-bad:" + sig)
					r.Violation(prop+":make-iso:"+sig+":"+target, sprintf("%s: image written by make-iso to %s (%d bytes): %s", c.desc, target, len(data), first), rep)
				}
				if !bad {
					r.Outcome("make-iso-ok:" + target)
				}
			}
			os.RemoveAll(outDir)
		}
		if idx%997 == 0 {
			r.Sample(map[string]any{"case": c.desc, "image_size": res.announced})
		}
	}
	isoTreeCases(maxNodes, maxPerm, c09Sizes(), do)
	isoFamilyCases(r.Thorough(), structural, do)
	isoChangingTree(r, prop, base, &idx, false)
	if r.Shard == 0 {
		anchorISOReader(r)
		if !structural {
			anchorGeneratedImages(r, base)
		}
	}
}

func TestC07(t *testing.T) { runISOProperty(t, "C07") }
func TestC08(t *testing.T) { runISOProperty(t, "C08") }
