package verifh

import (
	"os"
	"os/exec"
	"path/filepath"
	"sort"
	"strings"
)

// anchorISOReader: the reference reader must read a third-party image shipped with the repository
// (internal/testutil/testdata/testimg.iso) and agree with bsdtar (libarchive) on its listing when bsdtar exists.
func anchorISOReader(r *Reporter) {
	repo := os.Getenv("VERIF_REPO")
	if repo == "" {
		repo = "/repo"
	}
	data, err := os.ReadFile(filepath.Join(repo, "internal", "testutil", "testdata", "testimg.iso"))
	if err != nil {
		r.Note("third-party anchor image not readable: " + err.Error())
		return
	}
	var p isoProblems
	pvd := parseVolDesc(memImage(data), 16, &p)
	if pvd.Type != 1 {
		r.HarnessError("reference ISO reader cannot find the PVD of the third-party anchor image")
		return
	}
	h := walkHierarchy(memImage(data), pvd, &p)
	var mine []string
	var walk func(n *isoNode, path string)
	walk = func(n *isoNode, path string) {
		for _, c := range n.Children {
			name := strings.TrimSuffix(strings.TrimSuffix(c.Name, ";1"), ".")
			mine = append(mine, strings.ToLower(path+name))
			if c.IsDir {
				walk(c, path+name+"/")
			}
		}
	}
	walk(h.Root, "")
	sort.Strings(mine)
	r.Extra("anchor_image_entries", len(mine))
	if len(mine) == 0 {
		r.HarnessError("reference ISO reader found no entries in the third-party anchor image")
		return
	}
	for _, c := range []string{"/root/miniconda/bin/bsdtar", "/usr/bin/bsdtar"} {
		if _, err := os.Stat(c); err != nil {
			continue
		}
		out, err := exec.Command(c, "--options", "iso9660:!joliet,iso9660:!rockridge", "-tf", filepath.Join(repo, "internal", "testutil", "testdata", "testimg.iso")).Output()
		if err != nil {
			r.Note("bsdtar failed on the anchor image: " + err.Error())
			return
		}
		var theirs []string
		for _, l := range strings.Split(strings.TrimSpace(string(out)), "\n") {
			l = strings.TrimSuffix(strings.TrimSpace(l), "/")
			if l == "" || l == "." {
				continue
			}
			theirs = append(theirs, strings.ToLower(strings.TrimSuffix(l, ".")))
		}
		sort.Strings(theirs)
		if strings.Join(mine, "|") != strings.Join(theirs, "|") {
			r.Note(sprintf("anchor listing differs from bsdtar: mine=%v bsdtar=%v", mine, theirs))
		} else {
			r.Extra("anchor_bsdtar_agrees", true)
		}
		return
	}
	r.Note("bsdtar not present: reference reader anchored on the third-party image only")
}
