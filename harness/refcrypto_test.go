package verifh

import (
	"crypto/aes"
	"encoding/binary"
)

// Reference implementation of PS3 disc image encryption (redump / 3k3y), written from the disc format description
// (psdevwiki "Bluray disc # Encryption"): sector 0 holds a big-endian table {count, 0, (start_i, end_i)*count} of
// PLAIN regions, end inclusive; the sectors between two plain regions are encrypted, each 2048-byte sector
// separately with AES-128-CBC, key = AES-128-CBC-encrypt(disc key, fixed key, fixed iv), iv = sector number
// (big-endian) in the last 4 bytes. CBC is implemented here directly on aes block calls.

var refFixedKey = [16]byte{0x38, 0x0B, 0xCF, 0x0B, 0x53, 0x45, 0x5B, 0x3C, 0x78, 0x17, 0xAB, 0x4F, 0xA3, 0xBA, 0x90, 0xED}
var refFixedIV = [16]byte{0x69, 0x47, 0x47, 0x72, 0xAF, 0x6F, 0xDA, 0xB3, 0x42, 0x74, 0x3A, 0xEF, 0xAA, 0x18, 0x62, 0x87}

func refDeriveKey(d1 []byte) []byte {
	c, err := aes.NewCipher(refFixedKey[:])
	must(err)
	var x, out [16]byte
	for i := range x {
		x[i] = d1[i] ^ refFixedIV[i]
	}
	c.Encrypt(out[:], x[:])
	return out[:]
}

func refSectorIV(sector uint32) [16]byte {
	var iv [16]byte
	binary.BigEndian.PutUint32(iv[12:], sector)
	return iv
}

// refCBCDecryptSector decrypts one 2048-byte sector in place semantics (returns new slice).
func refCBCDecryptSector(key []byte, sector uint32, ct []byte) []byte {
	c, err := aes.NewCipher(key)
	must(err)
	prev := refSectorIV(sector)
	out := make([]byte, len(ct))
	for o := 0; o+16 <= len(ct); o += 16 {
		var b [16]byte
		c.Decrypt(b[:], ct[o:o+16])
		for i := 0; i < 16; i++ {
			out[o+i] = b[i] ^ prev[i]
		}
		copy(prev[:], ct[o:o+16])
	}
	return out
}

func refCBCEncryptSector(key []byte, sector uint32, pt []byte) []byte {
	c, err := aes.NewCipher(key)
	must(err)
	prev := refSectorIV(sector)
	out := make([]byte, len(pt))
	for o := 0; o+16 <= len(pt); o += 16 {
		var x [16]byte
		for i := 0; i < 16; i++ {
			x[i] = pt[o+i] ^ prev[i]
		}
		c.Encrypt(out[o:o+16], x[:])
		copy(prev[:], out[o:o+16])
	}
	return out
}

// regionTable encodes {count, 0, pairs...} big-endian.
func regionTable(pairs []uint32) []byte {
	b := make([]byte, 8+4*len(pairs))
	binary.BigEndian.PutUint32(b, uint32(len(pairs)/2))
	for i, v := range pairs {
		binary.BigEndian.PutUint32(b[8+4*i:], v)
	}
	return b
}

// encryptedSectors returns, for a table of plain regions [start,end] (end inclusive), which sectors are encrypted.
func encryptedSectors(pairs []uint32, nsect int) []bool {
	enc := make([]bool, nsect)
	for i := 2; i+1 < len(pairs); i += 2 {
		prevEnd := int64(pairs[i-1])
		start := int64(pairs[i])
		for s := prevEnd + 1; s < start && s < int64(nsect); s++ {
			if s >= 0 {
				enc[s] = true
			}
		}
	}
	return enc
}

// buildEncImage returns the on-disk (encrypted) form of plain under the given table and disc key.
func buildEncImage(plain []byte, pairs []uint32, d1 []byte) []byte {
	img := append([]byte{}, plain...)
	key := refDeriveKey(d1)
	nsect := len(plain) / 2048
	enc := encryptedSectors(pairs, nsect)
	for s := 0; s < nsect; s++ {
		if enc[s] {
			copy(img[s*2048:], refCBCEncryptSector(key, uint32(s), plain[s*2048:(s+1)*2048]))
		}
	}
	return img
}

// refDecryptImage returns the reference plaintext of an on-disk image (table read from the given pairs).
func refDecryptImage(img []byte, pairs []uint32, d1 []byte, clearHeader bool) []byte {
	out := append([]byte{}, img...)
	key := refDeriveKey(d1)
	nsect := len(img) / 2048
	enc := encryptedSectors(pairs, nsect)
	for s := 0; s < nsect; s++ {
		if enc[s] {
			copy(out[s*2048:], refCBCDecryptSector(key, uint32(s), img[s*2048:(s+1)*2048]))
		}
	}
	if clearHeader {
		n := 8 + 4*len(pairs)
		for i := 0; i < n && i < len(out); i++ {
			out[i] = 0
		}
	}
	return out
}

// mkRedumpImage builds an encrypted image of nsect sectors with pattern content and the given plain-region pairs.
// Returns the on-disk bytes and the disc key.
func mkRedumpImage(nsect int, pairs []uint32, d1 []byte, seed byte) ([]byte, []byte) {
	plain := patBytes(seed, 0, nsect*2048)
	copy(plain, regionTable(pairs))
	return buildEncImage(plain, pairs, d1), d1
}

// ---- PARAM.SFO builder (psdevwiki PARAM.SFO) ----

type sfoKV struct{ K, V string }

func mkSFO(kvs []sfoKV) []byte {
	n := len(kvs)
	keyTab := []byte{}
	dataTab := []byte{}
	idx := make([]byte, 16*n)
	for i, kv := range kvs {
		binary.LittleEndian.PutUint16(idx[16*i:], uint16(len(keyTab)))
		binary.LittleEndian.PutUint16(idx[16*i+2:], 0x0204)
		binary.LittleEndian.PutUint32(idx[16*i+4:], uint32(len(kv.V)+1))
		maxLen := (len(kv.V) + 1 + 3) &^ 3
		if kv.K == "TITLE_ID" && maxLen < 16 {
			maxLen = 16
		}
		binary.LittleEndian.PutUint32(idx[16*i+8:], uint32(maxLen))
		binary.LittleEndian.PutUint32(idx[16*i+12:], uint32(len(dataTab)))
		keyTab = append(keyTab, kv.K...)
		keyTab = append(keyTab, 0)
		d := make([]byte, maxLen)
		copy(d, kv.V)
		dataTab = append(dataTab, d...)
	}
	for len(keyTab)%4 != 0 {
		keyTab = append(keyTab, 0)
	}
	hdr := make([]byte, 20)
	copy(hdr, []byte{0, 'P', 'S', 'F', 1, 1, 0, 0})
	binary.LittleEndian.PutUint32(hdr[8:], uint32(20+16*n))
	binary.LittleEndian.PutUint32(hdr[12:], uint32(20+16*n+len(keyTab)))
	binary.LittleEndian.PutUint32(hdr[16:], uint32(n))
	out := append(hdr, idx...)
	out = append(out, keyTab...)
	out = append(out, dataTab...)
	return out
}
