package verifh

import (
	"errors"
	"os"
	"path/filepath"
	"strings"
	"syscall"
	"testing"

	"github.com/spf13/afero"

	pfs "github.com/xakep666/ps3netsrv-go/pkg/fs"
)

// C05: write gating. Disabled: nothing changes and every mutating request is refused. Enabled: uploads are exact,
// delete/mkdir/rmdir have exactly their named effect, virtual images can never be written through.

type c05World struct {
	w    *World
	leaf *VFs
}

func (cw *c05World) reset() {
	for _, d := range []string{"w", "***DVD***", "***PS3***"} {
		os.RemoveAll(filepath.Join(cw.w.Root, d))
	}
	w := cw.w
	w.MkDir("w/emptyd")
	w.File("w/old.txt", 7, 9)
	w.File("w/full/inner.bin", 100, 3)
	w.FixDirTimes()
}

func buildC05World(t testing.TB) *c05World {
	w := newWorld(t, "srv/root")
	w.File("ro.bin", 3000, 1)
	w.File("f.bin", 5000, 1)
	w.File("d2/a.txt", 10, 2)
	w.File("game/PS3_GAME/USRDIR/eboot.bin", 2049, 2)
	w.Data("game/PS3_GAME/PARAM.SFO", mkSFO([]sfoKV{{"TITLE_ID", "BLES01234"}}))
	w.File("PS3ISO/g.iso", 8192, 4)
	mkFileAbs(filepath.Join(w.Dir, "srv", "root-other", "secret.txt"), 10, 1, baseTime)
	cw := &c05World{w: w}
	cw.reset()
	return cw
}

func c05Targets() []string {
	return []string{"/w/new.bin", "/w/old.txt", "/w/full", "/w/emptyd", "/w/nodir/x", "/***DVD***/game", "/***PS3***/game/new", "/PS3ISO/g.iso", "/../root-other/secret.txt", "/w"}
}

func TestC05(t *testing.T) {
	r := NewReporter(t)
	defer r.Done()
	r.Rule("(a) writing disabled: all sequences of length <= depth over 5 mutating opcodes x 10 target kinds + non-mutating opcodes; oracle = refusal code + no mutating leaf filesystem operation + whole sentinel tree unchanged. (b) writing enabled: sequences over create/write(payload sizes 0..131073, chunkings)/delete/mkdir/rmdir on every target kind, consecutive uploads under 9 pairs of string-related names; oracle = model result codes + only the named target changes + uploaded bytes equal on disk and when read back. (e) the store failing (ENOSPC, EIO, partial write) at every write of a 70000-byte upload is reported truthfully. (d) two overlapping uploads / upload with download under every interleaving with <= 1 (quick) / 2 (thorough) preemptions: stored bytes exact. (c) library: every write-type call on every generated/decrypting view returns EPERM and changes nothing. distinct by (mode, executed request sequence)")
	cw := buildC05World(t)
	defer cw.w.Cleanup()
	w := cw.w
	targets := c05Targets()
	caseIdx := 0

	// ---------- (a) disabled ----------
	var alphaA []Req
	for _, tg := range targets {
		alphaA = append(alphaA, mkReq(opCreateFile, tg), mkReq(opDeleteFile, tg), mkReq(opMkdir, tg), mkReq(opRmdir, tg))
	}
	alphaA = append(alphaA, wrReq([]byte("hello")), wrReq(patBytes(1, 0, 70000)),
		mkReq(opOpenFile, "/w/old.txt"), mkReq(opOpenDir, "/w"), noargReq(opReadDir), mkReq(opStatFile, "/w/full"), rdReq(0, 10), mkReq(opGetDirSize, "/w"))
	depthA := 2
	if r.Thorough() {
		depthA = 3
	}
	before := snapshotTree(w.Dir, "")
	nA := len(alphaA)
	totalA := 1
	for i := 0; i < depthA; i++ {
		totalA *= nA
	}
	for idx := 0; idx < totalA; idx++ {
		caseIdx++
		if !r.Mine(caseIdx) {
			continue
		}
		if idx%512 == 0 && r.TimeUp() {
			break
		}
		seq := make([]Req, depthA)
		x := idx
		for k := depthA - 1; k >= 0; k-- {
			seq[k] = alphaA[x%nA]
			x /= nA
		}
		leaf := newVFs(afero.NewOsFs(), "leaf")
		m := newModel(w.Root, false)
		res := runSession(t, SrvOpts{Root: w.Root, AllowWrite: false, LeafWrap: func(afero.Fs) afero.Fs { return leaf }}, m, seq, Delivery{})
		r.Transition(int64(len(res.Steps)))
		r.Eval(1)
		key := "off|" + strings.Join(reqStrings(seq), ",")
		r.State(key)
		r.Nontrivial(key)
		for _, st := range res.Steps {
			r.Outcome("off:" + st.Class)
		}
		rep := map[string]any{"allow_write": false, "requests": seq, "steps": res.Steps}
		if res.Why != "" {
			r.Violation("C05:off:"+res.WhySig, res.Why, rep)
		}
		for _, e := range leaf.Events() {
			if e.Mut {
				r.Violation("C05:off:mutating-leaf-op:"+e.Op, sprintf("writing disabled but the server issued %s(%s) on the real filesystem during %v", e.Op, e.Path, reqStrings(seq)), rep)
				break
			}
		}
		if idx%64 == 0 || res.Why != "" {
			after := snapshotTree(w.Dir, "")
			if d := diffSnap(before, after); d != "[]" {
				r.Violation("C05:off:tree-changed", sprintf("writing disabled but the tree changed during %v: %s", reqStrings(seq), d), rep)
				cw.reset()
				before = snapshotTree(w.Dir, "")
			}
		}
		if idx%9973 == 0 {
			r.Sample(rep)
		}
	}
	after := snapshotTree(w.Dir, "")
	if d := diffSnap(before, after); d != "[]" {
		r.Violation("C05:off:tree-changed", "writing disabled but the tree changed over the batch: "+d, nil)
	}

	// ---------- (b) enabled ----------
	payloads := [][]byte{nil, {0x42}, patBytes(7, 0, 65535), patBytes(8, 0, 65536), patBytes(9, 0, 65537), patBytes(10, 0, 131073)}
	var alphaB []Req
	for _, tg := range targets {
		alphaB = append(alphaB, mkReq(opCreateFile, tg), mkReq(opDeleteFile, tg), mkReq(opMkdir, tg), mkReq(opRmdir, tg))
	}
	for _, p := range payloads {
		alphaB = append(alphaB, wrReq(p))
	}
	gateB := newReplayGate(r, "C05", w.Root, w.Dir, true, 7, 1)
	defer gateB.Stop()
	runB := func(seq []Req, d Delivery) {
		cw.reset()
		m := newModel(w.Root, true)
		// read everything back through the server at the end
		full := append([]Req{}, seq...)
		full = append(full, mkReq(opOpenFile, "/w/new.bin"), rdReq(0, 300000), mkReq(opOpenFile, "/w/old.txt"), rdReq(0, 300000))
		pre := snapshotTree(w.Dir, filepath.Join(w.Root, "w"))
		res := runSession(t, SrvOpts{Root: w.Root, AllowWrite: true}, m, full, d)
		r.Transition(int64(len(res.Steps)))
		r.Eval(1)
		key := sprintf("on|%d|%d|%v|", d.Chunk, d.MaxRead, d.Pieces) + strings.Join(reqStrings(seq), ",")
		r.State(key)
		r.Nontrivial(key)
		for _, st := range res.Steps {
			r.Outcome("on:" + st.Class)
		}
		rep := map[string]any{"allow_write": true, "requests": seq, "delivery": d, "steps": res.Steps}
		if res.Why != "" {
			r.Violation("C05:on:"+res.WhySig, res.Why, rep)
		}
		if d.plain() {
			gateB.maybe(newModel(w.Root, true), full, res, "writing enabled", cw.reset)
		}
		// nothing outside /w may change, except a target named by a request
		post := snapshotTree(w.Dir, filepath.Join(w.Root, "w"))
		if dd := diffSnap(pre, post); dd != "[]" {
			named := false
			for _, q := range seq {
				if q.Path != "" && !strings.HasPrefix(q.Path, "/w") && !strings.Contains(q.Path, "..") && !strings.Contains(q.Path, "***") {
					named = true // e.g. create /PS3ISO/g.iso legitimately truncates that file
				}
			}
			if !named {
				r.Violation("C05:on:collateral-change", sprintf("requests %v changed objects they do not name: %s", reqStrings(seq), dd), rep)
			}
		}
		if caseIdx%2003 == 0 {
			r.Sample(rep)
		}
	}
	depthB := 2
	nB := len(alphaB)
	for idx := 0; idx < nB*nB; idx++ {
		caseIdx++
		if !r.Mine(caseIdx) {
			continue
		}
		if idx%256 == 0 && r.TimeUp() {
			break
		}
		runB([]Req{alphaB[idx/nB], alphaB[idx%nB]}, Delivery{})
	}
	_ = depthB
	// two uploads in a row whose names are related as strings (one a prefix of the other, an added extension, another
	// case, a prefix of the directory the first one lies in), without a close marker in between: each file is created
	// and holds exactly its own payload
	for _, pair := range [][2]string{{"/w/new.bin.bak", "/w/new.bin"}, {"/w/new.bin", "/w/new.bin.bak"}, {"/w/emptyd/x.bin", "/w/empty"}, {"/w/emptyd/x.bin", "/w/emptyd/x"},
		{"/w/old.txt.tmp", "/w/old.txt"}, {"/w/new.bin", "/w/NEW.BIN"}, {"/w/new.bin", "/w/./new.bin"}, {"/w/emptyd/new.bin", "/w/new.bin"}, {"/w/new.bin", "/w/emptyd/new.bin"}} {
		for _, tail := range [][]Req{nil, {mkReq(opCreateFile, "/w")}, {mkReq(opCreateFile, pair[0]), wrReq([]byte("third"))}} {
			caseIdx++
			if !r.Mine(caseIdx) {
				continue
			}
			seq := append([]Req{mkReq(opCreateFile, pair[0]), wrReq(payloads[2][:3000]), mkReq(opCreateFile, pair[1]), wrReq(payloads[3][:2000]), wrReq([]byte("tail"))}, tail...)
			runB(seq, Delivery{})
		}
	}
	// payloads that reach the server in pieces of very different sizes (a few bytes, then more than a transfer buffer or a
	// coalescing threshold, then a few bytes again): stored bytes must not depend on how the stream was cut
	for _, n := range []int{40000, 70000, 131073} {
		big := make([]byte, n)
		for i := range big {
			big[i] = byte(i*7 + i>>8 + n)
		}
		for _, pc := range [][]int{{16 + 1}, {16 + 100, 40000}, {16 + 32767, 32768}, {16 + 1, 32768, 1}, {16 + 4095, 4096, 4097}, {16 + 65535, 1}, {16 + 65536, 1}, {16 + n - 1}, {16, 1, 2, 3, 65536}, {16 + 1000, 1000, 65537, 1000}, {3, 13, 5, 33000}} {
			for _, tail := range [][]Req{nil, {wrReq([]byte("tail"))}} {
				caseIdx++
				if !r.Mine(caseIdx) {
					continue
				}
				runB(append([]Req{mkReq(opCreateFile, "/w/new.bin"), wrReq(big)}, tail...), Delivery{Pieces: pc})
			}
		}
	}
	// create -> write x2 -> (second create | delete | nothing) with every payload pair and chunking
	for _, tg := range []string{"/w/new.bin", "/w/old.txt"} {
		for i, p1 := range payloads {
			for j, p2 := range payloads {
				for k, tail := range [][]Req{nil, {mkReq(opCreateFile, "/w/new.bin")}, {mkReq(opCreateFile, "/w/emptyd")}, {mkReq(opDeleteFile, tg)}, {mkReq(opCreateFile, "/w/old.txt"), wrReq(p1)},
					{mkReq(opOpenFile, "/ro.bin"), rdReq(0, 10), mkReq(opOpenFile, "/CLOSEFILE"), wrReq(p1), mkReq(opOpenFile, "/nope"), wrReq(p2)},
					{mkReq(opOpenDir, "/w"), noargReq(opReadDir), mkReq(opStatFile, "/w/new.bin"), wrReq(p1), mkReq(opGetDirSize, "/w"), wrReq(p2)},
					{mkReq(opCreateFile, "/w/nodir/x"), wrReq(p1)}, {mkReq(opCreateFile, "/***DVD***/game/new.bin"), wrReq(p1)}, {mkReq(opCreateFile, "/w/old.txt/below"), wrReq(p1), mkReq(opCreateFile, "/w/emptyd")}} {
					for _, d := range []Delivery{{}, {Chunk: 7}, {MaxRead: 1}, {Chunk: 1}} {
						if (d.Chunk > 0 || d.MaxRead > 0) && (len(p1)+len(p2) > 70000 || k > 1) {
							continue
						}
						if d.Chunk == 1 && len(p1)+len(p2) > 10 {
							continue
						}
						caseIdx++
						if !r.Mine(caseIdx) {
							continue
						}
						_, _ = i, j
						seq := append([]Req{mkReq(opCreateFile, tg), wrReq(p1), wrReq(p2)}, tail...)
						runB(seq, d)
					}
				}
			}
		}
	}
	if r.Thorough() {
		// depth-3 over the path ops only
		var alphaP []Req
		for _, q := range alphaB {
			if q.Op != opWriteFile {
				alphaP = append(alphaP, q)
			}
		}
		alphaP = append(alphaP, wrReq([]byte("xyz")))
		nP := len(alphaP)
		for idx := 0; idx < nP*nP*nP; idx++ {
			caseIdx++
			if !r.Mine(caseIdx) {
				continue
			}
			if idx%256 == 0 && r.TimeUp() {
				break
			}
			runB([]Req{alphaP[idx/(nP*nP)], alphaP[(idx/nP)%nP], alphaP[idx%nP]}, Delivery{})
		}
	}

	// ---------- (c) library: views refuse writes ----------
	if r.Shard == 0 {
		cw.reset()
		base := afero.NewBasePathFs(afero.NewOsFs(), w.Root)
		fsys := &pfs.FS{Fs: base}
		snap0 := snapshotTree(w.Dir, "")
		flagsets := []int{os.O_WRONLY, os.O_RDWR | os.O_CREATE, os.O_APPEND | os.O_WRONLY, os.O_TRUNC, os.O_CREATE, os.O_WRONLY | os.O_CREATE | os.O_TRUNC}
		for _, vp := range []string{"/***DVD***/game", "/***PS3***/game", "/***DVD***/game/new", "/***PS3***/w"} {
			for _, fl := range flagsets {
				f, err := fsys.OpenFile(vp, fl, 0o644)
				r.Transition(1)
				if err == nil {
					f.Close()
					r.Violation("C05:lib:virtual-open-for-write", sprintf("FS.OpenFile(%q, flags=%#x) succeeded", vp, fl), nil)
				} else {
					r.Outcome("lib:virtual-open-refused")
				}
			}
		}
		type wv interface {
			Write([]byte) (int, error)
			WriteAt([]byte, int64) (int, error)
			WriteString(string) (int, error)
			Truncate(int64) error
		}
		tryWrites := func(name string, v wv) {
			_, e1 := v.Write([]byte("x"))
			_, e2 := v.WriteAt([]byte("x"), 0)
			_, e3 := v.WriteString("x")
			e4 := v.Truncate(0)
			r.Transition(4)
			for i, e := range []error{e1, e2, e3, e4} {
				if !errors.Is(e, syscall.EPERM) {
					r.Violation("C05:lib:view-write-not-refused", sprintf("%s: write-type call #%d returned %v, want EPERM", name, i, e), nil)
				} else {
					r.Outcome("lib:view-write-refused")
				}
			}
		}
		for _, ps3 := range []bool{false, true} {
			v, err := pfs.NewVirtualISO(base, "/game", ps3)
			if err == nil {
				tryWrites(sprintf("VirtualISO(ps3=%v)", ps3), v)
				v.Close()
			} else {
				r.Note("VirtualISO construction failed in C05(c): " + err.Error())
			}
		}
		if img, key := mkRedumpImage(6, []uint32{0, 1, 4, 5}, make([]byte, 16), 3); img != nil {
			p := filepath.Join(w.Root, "PS3ISO", "enc.iso")
			writeFileAbs(p, img, baseTime)
			snap0 = snapshotTree(w.Dir, "")
			f, err := base.Open("/PS3ISO/enc.iso")
			must(err)
			e, err := pfs.NewEncryptedISO(f, key, false)
			if err == nil {
				tryWrites("EncryptedISO", e)
				k3, err := pfs.NewISO3k3y(e)
				if err == nil {
					tryWrites("ISO3k3y", k3)
				}
			} else {
				r.Note("EncryptedISO construction failed in C05(c): " + err.Error())
			}
			f.Close()
		}
		if d := diffSnap(snap0, snapshotTree(w.Dir, "")); d != "[]" {
			r.Violation("C05:lib:view-write-changed-tree", "write-type calls on views changed the tree: "+d, nil)
		}
	}
	// ---------- (e) the store fails in the middle of an upload: the failure is reported (or the connection ends), never
	// a success or a made-up byte count, and the following requests are still understood ----------
	storeFailureFamily(t, r, w.Root, cw.reset, "C05")
	// ---------- (d) uploads that overlap in time ----------
	// "stores exactly the uploaded bytes" must hold whatever else the server is transferring meanwhile: every
	// interleaving (bounded preemptions) of two uploads, and of an upload with a download, at connection and
	// filesystem operations
	{
		cw.reset()
		pa, pb := patBytes(1, 0, 70000), patBytes(2, 0, 65537)
		resetUp := func() {
			os.RemoveAll(filepath.Join(w.Root, "w", "up"))
			w.MkDir("w/up")
		}
		scs := []c12Scenario{
			{name: "two-uploads", allow: true, reset: resetUp, files: map[string][]byte{"w/up/a.bin": append(append([]byte{}, pa...), []byte("tail-a")...), "w/up/b.bin": pb}, clients: [][]Req{
				{mkReq(opCreateFile, "/w/up/a.bin"), wrReq(pa), wrReq([]byte("tail-a"))},
				{mkReq(opCreateFile, "/w/up/b.bin"), wrReq(pb)}}},
			{name: "upload-and-download", allow: true, reset: resetUp, files: map[string][]byte{"w/up/a.bin": pa[:3000]}, clients: [][]Req{
				{mkReq(opCreateFile, "/w/up/a.bin"), wrReq(pa[:1000]), wrReq(pa[1000:3000])},
				{mkReq(opOpenFile, "/ro.bin"), rdcReq(0, 3000), rdReq(5, 2000)}}},
		}
		// a transfer that failed before (client 0's download is cut by a write error) must not poison later uploads
		scs = append(scs, c12Scenario{name: "failed-transfer-then-two-uploads", allow: true, reset: resetUp, maxB: 1, failAt: map[int]int64{0: 1000},
			files: map[string][]byte{"w/up/a.bin": pa[:3000], "w/up/b.bin": pb[:2500]}, clients: [][]Req{
				{mkReq(opOpenFile, "/ro.bin"), rdcReq(0, 3000)},
				{mkReq(opCreateFile, "/w/up/a.bin"), wrReq(pa[:3000])},
				{mkReq(opCreateFile, "/w/up/b.bin"), wrReq(pb[:2500])}}})
		bound := 1
		if r.Thorough() {
			bound = 2
		}
		for _, sc := range scs {
			if !c12Explore(t, r, w.Root, sc, bound, "C05") {
				return
			}
		}
		os.RemoveAll(filepath.Join(w.Root, "w", "up"))
	}
	r.Assume("snapshot compares names, kinds, sizes, mtimes and content hashes of the whole sentinel directory (root and its surroundings)")
}
