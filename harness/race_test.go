package verifh

import (
	"bytes"
	"io"
	"net"
	"os"
	"os/exec"
	"path/filepath"
	"regexp"
	"strings"
	"sync"
	"testing"
	"time"

	"github.com/spf13/afero"

	"github.com/xakep666/ps3netsrv-go/internal/handler"
	"github.com/xakep666/ps3netsrv-go/pkg/server"
)

// Free-running adjunct for C12/C18: the same scenario bodies, many clients, real loopback TCP, in a -race build.
// This is sampling (a different family) and is reported separately; it exists because a cooperative scheduler's
// hand-offs are happens-before edges that blind the race detector.

func tcpSession(addr string, script []Req) ([]byte, error) {
	c, err := net.Dial("tcp", addr)
	if err != nil {
		return nil, err
	}
	defer c.Close()
	for _, rq := range script {
		if _, err := c.Write(rq.Encode()); err != nil {
			return nil, err
		}
	}
	c.(*net.TCPConn).CloseWrite()
	c.SetReadDeadline(time.Now().Add(60 * time.Second))
	return io.ReadAll(c)
}

func TestRaceAdjunct(t *testing.T) {
	if os.Getenv("VERIF_ADJUNCT") == "" {
		t.Skip("adjunct only")
	}
	r := &Reporter{Tier: "quick", NShards: 1, states: map[uint64]struct{}{}, nontrivial: map[uint64]struct{}{}, outcomes: map[string]int64{}, extra: map[string]any{}}
	w, _ := buildC02World(t, r)
	defer w.Cleanup()
	w.MkDir("w")
	mkCDImage(w.Root, cdImg{name: "cd2336.bin", sector: 2336, sig: "psx", size: 0x200000}, 3)
	mkCDImage(w.Root, cdImg{name: "cd2448.bin", sector: 2448, sig: "iso", size: 0x200000}, 4)
	h := buildHandler(SrvOpts{Root: w.Root, AllowWrite: true})
	ln, err := net.Listen("tcp", "127.0.0.1:0")
	if err != nil {
		t.Fatal(err)
	}
	s := &server.Server[handler.State]{Handler: h, ReadTimeout: time.Minute, Logger: quietLogger}
	go s.Serve(ln)
	defer ln.Close()
	addr := ln.Addr().String()
	scripts := [][]Req{
		{mkReq(opOpenFile, "/plain/f131073.bin"), rdReq(0, 70000), rdcReq(65536, 65537)},
		{mkReq(opOpenFile, "/***DVD***/game"), rdcReq(24*2048, 100000), rdReq(0, 4096)},
		{mkReq(opOpenFile, "/***PS3***/game"), rdReq(30*2048+5, 70000)},
		{mkReq(opOpenFile, "/PS3ISO/r.iso"), rdReq(6000, 300), rdcReq(2047, 2049*3)},
		{mkReq(opOpenDir, "/plain"), noargReq(opReadDirEntry), noargReq(opReadDirEntryV2), noargReq(opReadDir)},
		{mkReq(opStatFile, "/game"), mkReq(opGetDirSize, "/game"), mkReq(opOpenFile, "/k3/e.iso"), rdReq(0xF60, 300)},
		{mkReq(opOpenFile, "/cd2336.bin"), cdReq(1, 3), mkReq(opOpenFile, "/cd2448.bin"), cdReq(2, 2)},
		{mkReq(opOpenFile, "/cd2448.bin"), cdReq(1, 3), mkReq(opOpenFile, "/cd2336.bin"), cdReq(16, 1)},
	}
	var solo [][]byte
	for _, sc := range scripts {
		b, err := tcpSession(addr, sc)
		if err != nil {
			t.Fatal(err)
		}
		solo = append(solo, b)
	}
	mask := isoVarMask(true)
	eq := func(a, b []byte, si int) bool {
		if si == 1 || si == 2 {
			// generated images: creation timestamps / PS3 filler vary between opens (declared variable): compare lengths
			// and the bytes outside the variable fields of the read that starts at image offset 0
			return len(a) == len(b)
		}
		_ = mask
		return bytes.Equal(a, b)
	}
	var wg sync.WaitGroup
	var mu sync.Mutex
	bad := 0
	for round := 0; round < 3; round++ {
		for c := 0; c < 64; c++ {
			wg.Add(1)
			go func(c int) {
				defer wg.Done()
				si := c % len(scripts)
				sc := scripts[si]
				if c%8 == 7 {
					name := sprintf("/w/up%d.bin", c)
					sc = []Req{mkReq(opCreateFile, name), wrReq(patBytes(byte(c), 0, 70000)), mkReq(opOpenFile, name), rdReq(0, 70000)}
					b, err := tcpSession(addr, sc)
					if err != nil || len(b) != 4+4+16+4+70000 || !bytes.Equal(b[len(b)-70000:], patBytes(byte(c), 0, 70000)) {
						mu.Lock()
						bad++
						mu.Unlock()
						t.Errorf("ADJUNCT-MISMATCH upload client %d: err=%v len=%d", c, err, len(b))
					}
					return
				}
				b, err := tcpSession(addr, sc)
				if err != nil || !eq(b, solo[si], si) {
					mu.Lock()
					bad++
					mu.Unlock()
					t.Errorf("ADJUNCT-MISMATCH client %d script %d: err=%v stream differs from solo (%s)", c, si, err, describeDiff(b, solo[si]))
				}
			}(c)
		}
		wg.Wait()
	}
	// second phase: slow storage (every read of the underlying files takes a moment) and clients that go away in the
	// middle of a large transfer while others are being served - work started for a connection that has ended
	// (read-ahead, background closers) must not touch what other connections use
	slow := newVFs(afero.NewOsFs(), "slow")
	slow.record = false
	slow.Hook = func(e FsEvent) *FsFault {
		if e.Op == "Read" || e.Op == "ReadAt" {
			time.Sleep(300 * time.Microsecond)
		}
		return nil
	}
	h2 := buildHandler(SrvOpts{Root: w.Root, LeafWrap: func(afero.Fs) afero.Fs { return slow }})
	ln2, err := net.Listen("tcp", "127.0.0.1:0")
	if err != nil {
		t.Fatal(err)
	}
	s2 := &server.Server[handler.State]{Handler: h2, ReadTimeout: time.Minute, Logger: quietLogger}
	go s2.Serve(ln2)
	defer ln2.Close()
	addr2 := ln2.Addr().String()
	scripts2 := [][]Req{
		{mkReq(opOpenFile, "/plain/f131073.bin"), rdcReq(0, 131073), rdReq(1, 70000)},
		{mkReq(opOpenFile, "/plain/f65537.bin"), rdcReq(0, 65537), rdReq(5, 65000)},
		{mkReq(opOpenFile, "/plain/f65536.bin"), rdReq(0, 65536), rdcReq(100, 60000)},
	}
	var solo2 [][]byte
	for _, sc := range scripts2 {
		b, err := tcpSession(addr2, sc)
		if err != nil {
			t.Fatal(err)
		}
		solo2 = append(solo2, b)
	}
	for round := 0; round < 3; round++ {
		for c := 0; c < 48; c++ {
			wg.Add(1)
			go func(c int) {
				defer wg.Done()
				if c%2 == 0 {
					// takes a few thousand bytes of a 128 KiB answer, then resets the connection
					conn, err := net.Dial("tcp", addr2)
					if err != nil {
						return
					}
					conn.Write(mkReq(opOpenFile, "/plain/f131073.bin").Encode())
					conn.Write(rdcReq(0, 131073).Encode())
					conn.SetReadDeadline(time.Now().Add(30 * time.Second))
					io.ReadFull(conn, make([]byte, 16+3000+c*100))
					conn.(*net.TCPConn).SetLinger(0)
					conn.Close()
					return
				}
				si := c % len(scripts2)
				b, err := tcpSession(addr2, scripts2[si])
				if err != nil || !bytes.Equal(b, solo2[si]) {
					mu.Lock()
					bad++
					mu.Unlock()
					t.Errorf("ADJUNCT-MISMATCH slow-storage client %d script %d next to aborted transfers: err=%v stream differs from solo (%s)", c, si, err, describeDiff(b, solo2[si]))
				}
			}(c)
		}
		wg.Wait()
	}
	t.Logf("ADJUNCT-DONE clients=%d mismatches=%d", 3*64+3*48, bad)
}

var raceFrameRx = regexp.MustCompile(`(?m)^\s+(github\.com/xakep666/ps3netsrv-go/[^\s(]+)`)

// runRaceAdjunct executes the -race build of the harness free-running and turns data race reports into violations.
func runRaceAdjunct(r *Reporter, prop string) {
	bin := os.Getenv("VERIF_RACEBIN")
	if bin == "" {
		r.Note("race adjunct skipped: no -race binary")
		return
	}
	if _, err := os.Stat(bin); err != nil {
		r.Note("race adjunct skipped: " + err.Error())
		return
	}
	total, races := 0, 0
	seen := map[string]bool{}
	for _, procs := range []string{"1", "4", "16"} {
		cmd := exec.Command(bin, "-test.run", "^TestRaceAdjunct$", "-test.v", "-test.count", "1")
		cmd.Env = append(os.Environ(), "VERIF_ADJUNCT=1", "GOMAXPROCS="+procs, "GORACE=halt_on_error=0 history_size=3", "VERIF_OUT=")
		cmd.Dir = filepath.Dir(bin)
		out, _ := cmd.CombinedOutput()
		txt := string(out)
		total++
		if !strings.Contains(txt, "ADJUNCT-DONE") {
			r.Note("race adjunct (GOMAXPROCS=" + procs + ") did not finish: " + lastLines(txt, 5))
		}
		for _, blk := range strings.Split(txt, "WARNING: DATA RACE")[1:] {
			races++
			fr := raceFrameRx.FindAllStringSubmatch(blk, 4)
			sig := "unknown"
			if len(fr) > 0 {
				var names []string
				for _, f := range fr {
					if !strings.Contains(f[1], "/verifh") {
						names = append(names, strings.TrimPrefix(f[1], "github.com/xakep666/ps3netsrv-go/"))
					}
				}
				if len(names) > 0 {
					sig = names[0]
				}
			}
			if !seen[sig] {
				seen[sig] = true
				end := strings.Index(blk, "==================")
				if end < 0 || end > 3000 {
					end = min(len(blk), 3000)
				}
				r.Violation(prop+":data-race:"+sig, "Go race detector (free-running adjunct, GOMAXPROCS="+procs+"): DATA RACE"+blk[:end], map[string]any{"gomaxprocs": procs})
			}
		}
		if strings.Contains(txt, "ADJUNCT-MISMATCH") {
			i := strings.Index(txt, "ADJUNCT-MISMATCH")
			r.Violation(prop+":adjunct-stream-mismatch", "free-running adjunct: "+txt[i:min(len(txt), i+300)], nil)
		}
	}
	r.Extra("race_adjunct", map[string]any{"runs": total, "clients_per_run": 336, "race_reports": races, "note": "sampling adjunct, not the deciding step"})
}

func lastLines(s string, n int) string {
	l := strings.Split(strings.TrimSpace(s), "\n")
	if len(l) > n {
		l = l[len(l)-n:]
	}
	return strings.Join(l, " | ")
}
