package verifh

import (
	"bytes"
	"encoding/hex"
	"testing/synctest"
	"syscall"

	"github.com/spf13/afero"

	"os"
	"path/filepath"
	"strings"
	"testing"
	"time"
)

// C02: served bytes equal stored bytes for every offset and length, for every kind of served object.

type c02Obj struct {
	path   string // wire path
	kind   string
	obj    *roObj  // non-nil for special objects (views); nil = plain file
	bounds []int64 // structural boundaries
}

func memObj(desc string, data []byte, mask func(int64, []byte)) *roObj {
	o := &roObj{desc: desc, size: int64(len(data)), mask: mask}
	o.read = func(off int64, n int) []byte {
		if off >= int64(len(data)) {
			return nil
		}
		e := off + int64(n)
		if e > int64(len(data)) {
			e = int64(len(data))
		}
		return data[off:e]
	}
	o.cdSector = 2352
	return o
}

func buildC02World(t testing.TB, r *Reporter) (*World, []c02Obj) {
	w := newWorld(t, "srv/root")
	var objs []c02Obj
	for i, sz := range []int64{0, 1, 2047, 2048, 2049, 65535, 65536, 65537, 131073} {
		name := sprintf("/plain/f%d.bin", sz)
		w.File(name[1:], sz, byte(i+1))
		objs = append(objs, c02Obj{path: name, kind: "plain", bounds: []int64{0, sz, 2048, 65536, 131072}})
	}
	big := int64(4<<30) + 5
	w.File("plain/sparse.bin", big, 9)
	objs = append(objs, c02Obj{path: "/plain/sparse.bin", kind: "sparse", bounds: []int64{0, 0xFFFFF800, 4 << 30, big}})
	// generated images
	w.File("game/a.bin", 2049, 11)
	w.File("game/sub/b.bin", 1, 12)
	w.File("game/sub/empty", 0, 13)
	w.File("game/PS3_GAME/USRDIR/EBOOT.BIN", 70000, 14)
	w.Data("game/PS3_GAME/PARAM.SFO", mkSFO([]sfoKV{{"TITLE_ID", "BLES01234"}}))
	w.FixDirTimes()
	for _, k := range []string{"DVD", "PS3"} {
		v, err := openVISO(w.Root, "/game", k == "PS3")
		if err != nil {
			r.Violation("C02:image-create-failed", "generated image of /game could not be created: "+err.Error(), nil)
			continue
		}
		st, _ := v.Stat()
		img, err := canonicalImage(v, 1<<20, st.Size()+1<<20)
		v.Close()
		if err != nil {
			r.Violation("C02:image-read-failed", "generated image of /game could not be read: "+err.Error(), nil)
			continue
		}
		objs = append(objs, c02Obj{path: "/***" + k + "***/game", kind: "image-" + k, obj: memObj("image", img, isoVarMask(k == "PS3")), bounds: structuralBoundaries(img)})
	}
	// redump image + adjacent key
	pairs := []uint32{0, 2, 5, 7, 10, 11}
	key := c10Keys[2]
	disk, _ := mkRedumpImage(12, pairs, key, 21)
	w.Data("PS3ISO/r.iso", disk)
	w.Data("PS3ISO/r.dkey", []byte(hex.EncodeToString(key)+"\n"))
	rb := []int64{0, 24, 2048}
	for _, p := range pairs {
		rb = append(rb, int64(p)*2048, int64(p+1)*2048)
	}
	rb = append(rb, 12*2048)
	objs = append(objs, c02Obj{path: "/PS3ISO/r.iso", kind: "redump", obj: memObj("redump", refDecryptImage(disk, pairs, key, false), nil), bounds: rb})
	// 3k3y encrypted and decrypted
	plain := patBytes(31, 0, 12*2048)
	copy(plain, regionTable(pairs))
	copy(plain[0xF70:], wmEnc)
	copy(plain[0xF80:], c10Keys[3])
	edisk := buildEncImage(plain, pairs, c10Keys[3])
	w.Data("k3/e.iso", edisk)
	kb := append(append([]int64{}, rb...), 0xF70, 0x1070)
	objs = append(objs, c02Obj{path: "/k3/e.iso", kind: "3k3y-enc", obj: memObj("3k3y-enc", zeroMask(refDecryptImage(edisk, pairs, c10Keys[3], false)), nil), bounds: kb})
	dplain := patBytes(32, 0, 6*2048)
	copy(dplain[0xF70:], wmDec)
	w.Data("k3/d.iso", dplain)
	objs = append(objs, c02Obj{path: "/k3/d.iso", kind: "3k3y-dec", obj: memObj("3k3y-dec", zeroMask(dplain), nil), bounds: []int64{0, 0xF70, 0x1070, 2048, 4096, 6 * 2048}})
	w.File("other.bin", 777, 40)
	// generated images of directories that themselves hold disc images and key files: the members are stored byte
	// for byte (the reference is built by the generator on the raw filesystem), never decrypted or masked
	for _, d := range []string{"k3", "PS3ISO"} {
		v, err := openVISO(w.Root, "/"+d, false)
		if err != nil {
			r.Violation("C02:image-create-failed", "generated image of /"+d+" could not be created: "+err.Error(), nil)
			continue
		}
		st, _ := v.Stat()
		img, err := canonicalImage(v, 1<<20, st.Size()+1<<20)
		v.Close()
		if err != nil {
			r.Violation("C02:image-read-failed", "generated image of /"+d+" could not be read: "+err.Error(), nil)
			continue
		}
		objs = append(objs, c02Obj{path: "/***DVD***/" + d, kind: "image-of-disc-images", obj: memObj("image", img, isoVarMask(false)), bounds: structuralBoundaries(img)})
	}
	return w, objs
}

type geo struct {
	off uint64
	n   uint32
}

func c02Geometry(bounds []int64, size int64) []geo {
	bm := map[int64]bool{}
	for _, b := range bounds {
		if b <= size {
			bm[b] = true
		}
	}
	bm[size] = true
	bm[0] = true
	var bs []int64
	for b := range bm {
		bs = append(bs, b)
	}
	bs = uniqSorted(bs)
	var offs []int64
	for _, b := range bs {
		for _, d := range []int64{-1, 0, 1} {
			if b+d >= 0 {
				offs = append(offs, b+d)
			}
		}
	}
	offs = uniqSorted(append(offs, size+1000, size+(1<<33)))
	seen := map[geo]bool{}
	var out []geo
	add := func(o int64, n int64) {
		if n < 0 || n > 300000 {
			return
		}
		g := geo{uint64(o), uint32(n)}
		if !seen[g] {
			seen[g] = true
			out = append(out, g)
		}
	}
	// magnitudes: offsets at 32/62/63/64-bit limits (far beyond the end of every object but the sparse one) and the
	// largest limits the property admits (< 2^31), the latter only where the answer stays small
	for _, o := range []uint64{1<<31 - 1, 1 << 31, 1<<32 - 1, 1 << 32, 1<<32 + 1, 1 << 62, 1<<63 - 1, 1 << 63, 1<<64 - 1} {
		for _, n := range []uint32{0, 1, 2048, 65537} {
			g := geo{o, n}
			if !seen[g] {
				seen[g] = true
				out = append(out, g)
			}
		}
	}
	if size <= 200000 {
		for _, o := range []int64{0, 1, size - 1, size} {
			for _, n := range []uint32{1<<31 - 1, 1 << 30, 1<<24 + 1} {
				if o >= 0 {
					g := geo{uint64(o), n}
					if !seen[g] {
						seen[g] = true
						out = append(out, g)
					}
				}
			}
		}
	}
	for _, o := range offs {
		for _, n := range []int64{0, 1, 2, 2047, 2048, 2049, 65536, 65537} {
			add(o, n)
		}
		cnt := 0
		for _, b := range bs {
			if b > o && cnt < 3 {
				for _, d := range []int64{-1, 0, 1} {
					add(o, b-o+d)
				}
				cnt++
			}
		}
	}
	return out
}

func TestC02(t *testing.T) {
	r := NewReporter(t)
	defer r.Done()
	r.Rule("objects: plain files of 9 boundary sizes, sparse 4 GiB+5 file, generated image (DVD and PS3 mode; also of directories holding encrypted images and key files), redump view (adjacent key), 3k3y encrypted and decrypted views; histories OpenFile.r1 and OpenFile.r1.x.r2 with r in {ordinary, critical} x (offset,limit) from structural boundaries +-1 x lengths {0,1,2,2047,2048,2049,65536,65537,to-boundary+-1} incl. offset >= size, x in {none, Stat, OpenDir+ReadDir, OpenFile(other)+OpenFile(obj)}; all ordered pairs of objects transferred at the same time on two connections (a slow receiver interrupted by a complete transfer of the other object) x {ordinary, critical} x buffer {default, 1000}; a file that changes between two opens on one connection (10 kinds of change: replaced, rewritten, appended, removed, turned into a directory; with and without a telling modification time) x 4 things in between; oracle = announced size/mtime and exact bytes/length/connection state; distinct by (object, history)")
	w, objs := buildC02World(t, r)
	defer w.Cleanup()
	special := map[string]*roObj{}
	for _, o := range objs {
		if o.obj != nil {
			special[o.path] = o.obj
		}
	}
	mkModel := func() *Model {
		m := newModel(w.Root, false)
		m.objFor = func(m *Model, clean string) (*roObj, bool, bool) {
			if o, ok := special[clean]; ok {
				return o, true, true
			}
			return nil, false, false
		}
		return m
	}
	idx := 0
	gate := newReplayGate(r, "C02", w.Root, w.Dir, false, 101, 7)
	defer gate.Stop()
	gate1000 := newReplayGateArgs(r, "C02", "-buf1000", w.Root, w.Dir, false, 5, 1, "--buffer-size=1000")
	defer gate1000.Stop()
	gate0 := newReplayGateArgs(r, "C02", "-buf0", w.Root, w.Dir, false, 5, 1, "--buffer-size=0")
	defer gate0.Stop()
	run := func(o c02Obj, reqs []Req) {
		idx++
		if !r.Mine(idx) {
			return
		}
		if idx%512 == 0 && r.TimeUp() {
			return
		}
		if !r.exhaustiveOK() {
			return
		}
		m := mkModel()
		res := runSession(t, SrvOpts{Root: w.Root}, m, reqs, Delivery{})
		gate.maybe(mkModel(), reqs, res, o.path, nil)
		r.Transition(int64(len(res.Steps)))
		r.Eval(1)
		key := o.path + "|" + strings.Join(reqStrings(reqs), ",")
		r.State(key)
		r.Nontrivial(key)
		for _, st := range res.Steps {
			r.Outcome(o.kind + ":" + st.Class)
		}
		if res.Why != "" {
			r.Violation("C02:"+o.kind+":"+res.WhySig, o.path+": "+res.Why, map[string]any{"object": o.path, "requests": reqs, "steps": res.Steps})
		}
		if idx%20011 == 0 {
			r.Sample(map[string]any{"object": o.path, "steps": res.Steps})
		}
	}
	mk := func(crit bool, g geo) Req {
		if crit {
			return rdcReq(g.off, g.n)
		}
		return rdReq(g.off, g.n)
	}
	for _, o := range objs {
		size := int64(-1)
		if o.obj != nil {
			size = o.obj.size
		} else if fi, err := os.Stat(filepath.Join(w.Root, o.path)); err == nil {
			size = fi.Size()
		}
		G := c02Geometry(o.bounds, size)
		open := mkReq(opOpenFile, o.path)
		for _, g := range G {
			for _, crit := range []bool{false, true} {
				run(o, []Req{open, mk(crit, g)})
			}
		}
		// underlying filesystem returns short reads all the time (at most `cap` bytes per Read): served bytes must
		// not change (views re-read partial sectors, the image builder must loop)
		caps := []int{2047}
		if r.Thorough() {
			caps = []int{1, 16, 2047}
		}
		for _, cp := range caps {
			for gi, g := range G {
				if gi%5 != 0 || (cp == 1 && g.n > 4096) {
					continue
				}
				for _, crit := range []bool{false, true} {
					idx++
					if !r.Mine(idx) {
						continue
					}
					cp := cp
					reqs := []Req{open, mk(crit, g), mk(!crit, g)}
					m := mkModel()
					res := runSession(t, SrvOpts{Root: w.Root, LeafWrap: func(inner afero.Fs) afero.Fs {
						v := newVFs(inner, "cap")
						v.record = false
						v.Hook = func(e FsEvent) *FsFault {
							if e.Op == "Read" {
								return &FsFault{Short: cp}
							}
							return nil
						}
						return v
					}}, m, reqs, Delivery{})
					r.Transition(int64(len(res.Steps)))
					r.Eval(1)
					key := sprintf("%s|cap%d|%s", o.path, cp, strings.Join(reqStrings(reqs), ","))
					r.State(key)
					r.Nontrivial(key)
					for _, st := range res.Steps {
						r.Outcome(o.kind + ":short-reads:" + st.Class)
					}
					if res.Why != "" {
						r.Violation("C02:"+o.kind+":short-reads:"+res.WhySig, sprintf("%s with every underlying Read capped at %d bytes: %s", o.path, cp, res.Why), map[string]any{"object": o.path, "read_cap": cp, "requests": reqs, "steps": res.Steps})
					}
				}
			}
		}
		// other transfer-buffer configurations (--buffer-size): tiny, small, and the unpooled copier (size <= 0)
		for _, bs := range []int64{1, 1000, 1500, 4096, -1} {
			for gi, g := range G {
				if gi%7 != 0 || (bs == 1 && g.n > 4096) || (bs > 1 && bs < 4096 && gi%14 != 0) {
					continue
				}
				for _, crit := range []bool{false, true} {
					idx++
					if !r.Mine(idx) {
						continue
					}
					reqs := []Req{open, mk(crit, g), mk(!crit, g)}
					m := mkModel()
					res := runSession(t, SrvOpts{Root: w.Root, BufSize: bs}, m, reqs, Delivery{})
					switch bs {
					case 1000:
						gate1000.maybe(mkModel(), reqs, res, sprintf("%s --buffer-size=1000", o.path), nil)
					case -1:
						gate0.maybe(mkModel(), reqs, res, sprintf("%s --buffer-size=0", o.path), nil)
					}
					r.Transition(int64(len(res.Steps)))
					r.Eval(1)
					key := sprintf("%s|bufsize%d|%s", o.path, bs, strings.Join(reqStrings(reqs), ","))
					r.State(key)
					r.Nontrivial(key)
					for _, st := range res.Steps {
						r.Outcome(o.kind + ":bufsize:" + st.Class)
					}
					if res.Why != "" {
						r.Violation("C02:"+o.kind+":bufsize:"+res.WhySig, sprintf("%s with transfer buffer size %d: %s", o.path, bs, res.Why), map[string]any{"object": o.path, "buffer_size": bs, "requests": reqs, "steps": res.Steps})
					}
				}
			}
		}
		// a legal short read followed by a transient error (EINTR/EAGAIN) on the next filesystem operation: the
		// server may answer exactly, refuse, or stop after a correct prefix, but never announce one length and
		// send another or resend what it already sent
		for gi, g := range G {
			if gi%9 != 0 || g.n < 8 {
				continue
			}
			for _, crit := range []bool{false, true} {
				for _, bs := range []int{0, 1000} {
					idx++
					if !r.Mine(idx) {
						continue
					}
					sc := c13Scenario{name: o.path, buf: bs, reqs: []Req{open, mk(crit, g), mk(!crit, g)}}
					base := c13Run(t, w.Root, sc, mkModel, faultPlan{}, nil)
					r.Transition(int64(len(base.steps)))
					if base.why != "" {
						continue // reported by the fault-free families above
					}
					for i, ev := range base.events {
						if ev.Op != "Read" || ev.N < 4 {
							continue
						}
						for _, e2 := range []syscall.Errno{syscall.EINTR, syscall.EAGAIN} {
							p := faultPlan{At: map[int]FsFault{i: {Short: (ev.N + 1) / 2}, i + 1: {Err: e2}}, Desc: []string{sprintf("shorthalf@%d:Read", i), sprintf("%s@%d", e2.Error(), i+1)}}
							res := c13Run(t, w.Root, sc, mkModel, p, nil)
							r.Transition(int64(len(res.steps)))
							r.Eval(1)
							key := sprintf("%s|buf%d|%v|%s", o.path, bs, p.Desc, strings.Join(reqStrings(sc.reqs), ","))
							r.State(key)
							r.Nontrivial(key)
							for _, st := range res.steps {
								r.Outcome(o.kind + ":transient:" + st.Class)
							}
							if res.why != "" {
								r.Violation("C02:"+o.kind+":transient:"+res.sig, sprintf("%s (buffer %d) with deviations %v: %s", o.path, bs, p.Desc, res.why), map[string]any{"object": o.path, "buffer_size": bs, "plan": p, "requests": sc.reqs, "steps": res.steps})
							}
						}
					}
				}
			}
		}
		// hidden-cursor family: another file is read up to position P, then this object is opened (without
		// CLOSEFILE) and first read exactly at offset P; and the same after a CD-style read
		for gi, g := range G {
			if g.off == 0 || g.off > 131072 || (!r.Thorough() && gi%2 == 1) {
				continue
			}
			for _, crit := range []bool{false, true} {
				run(o, []Req{mkReq(opOpenFile, "/plain/f131073.bin"), rdcReq(g.off-1, 1), open, mk(crit, g)})
				run(o, []Req{mkReq(opOpenFile, "/plain/f131073.bin"), rdReq(0, uint32(g.off)), open, mk(crit, g), mk(!crit, g)})
			}
		}
		// histories with something in between
		step := 11
		if r.Thorough() {
			step = 3
		}
		xs := [][]Req{nil, {mkReq(opStatFile, "/other.bin")}, {mkReq(opOpenDir, "/plain"), noargReq(opReadDir)}, {mkReq(opOpenFile, "/other.bin"), rdReq(5, 10), open}}
		for i := 0; i < len(G); i += step {
			g1 := G[i]
			if int64(g1.off)+int64(g1.n) > size {
				continue // a critical read past EOF ends the connection; keep r1 satisfiable
			}
			for _, c1 := range []bool{false, true} {
				for _, x := range xs {
					for j, g2 := range G {
						if !r.Thorough() && (j+i)%3 != 0 {
							continue
						}
						for _, c2 := range []bool{false, true} {
							reqs := append([]Req{open, mk(c1, g1)}, x...)
							reqs = append(reqs, mk(c2, g2))
							run(o, reqs)
						}
					}
				}
			}
		}
	}
	// transfers that overlap in time on two connections: a slow receiver takes one byte of its answer, a second
	// client reads another object completely, then the first takes the rest - each still gets its own object's bytes
	c02Overlap(t, r, w, objs, &idx)
	c02Changes(t, r, w, &idx)
}

// c02Changes: the file behind a name changes between two opens on one connection (replaced by a new file the way
// download tools and editors do it, rewritten in place, removed, turned into a directory), with and without the
// modification time giving it away. "After a file is opened, the announced size and time are the file's" speaks of
// the file that is there at the open; a handle, size or position remembered from the earlier open is not it.
func c02Changes(t *testing.T, r *Reporter, w *World, idx *int) {
	p := filepath.Join(w.Root, "chg", "f.bin")
	later := baseTime.Add(3 * time.Hour)
	type chg struct {
		name string
		size int64 // size afterwards (-1: no file)
		do   func()
	}
	changes := []chg{
		{"replaced by a larger file", 70000, func() { replaceFileAbs(p, 70000, 9, later) }},
		{"replaced by a smaller file", 1234, func() { replaceFileAbs(p, 1234, 9, later) }},
		{"replaced by a file of the same size and time", 50000, func() { replaceFileAbs(p, 50000, 9, baseTime) }},
		{"removed and created again", 50001, func() { must(os.Remove(p)); mkFileAbs(p, 50001, 8, later) }},
		{"rewritten in place, shorter", 4097, func() { mkFileAbs(p, 4097, 7, later) }},
		{"rewritten in place, same size and time", 50000, func() { mkFileAbs(p, 50000, 6, baseTime) }},
		{"appended to", 50000 + 3000, func() {
			f, err := os.OpenFile(p, os.O_WRONLY|os.O_APPEND, 0)
			must(err)
			f.Write(patBytes(5, 0, 3000))
			must(f.Close())
			must(os.Chtimes(p, later, later))
		}},
		{"only its time changed", 50000, func() { must(os.Chtimes(p, later, later)) }},
		{"removed", -1, func() { must(os.Remove(p)) }},
		{"replaced by a directory", -1, func() { must(os.Remove(p)); mkFileAbs(filepath.Join(p, "x"), 5, 1, later) }},
	}
	betweens := [][]Req{nil, {mkReq(opOpenFile, "/chg/CLOSEFILE")}, {mkReq(opOpenFile, "/chg/other.bin"), rdReq(0, 10)}, {mkReq(opStatFile, "/chg/f.bin")}}
	for _, ch := range changes {
		for bi, bw := range betweens {
			for _, statAfter := range []bool{false, true} {
				*idx++
				if !r.Mine(*idx) {
					continue
				}
				os.RemoveAll(filepath.Join(w.Root, "chg"))
				mkFileAbs(p, 50000, 3, baseTime)
				mkFileAbs(filepath.Join(w.Root, "chg", "other.bin"), 300, 4, baseTime)
				open := mkReq(opOpenFile, "/chg/f.bin")
				reqs := []Req{open, rdReq(0, 100), rdcReq(49990, 10), rdReq(20000, 3000)}
				reqs = append(reqs, bw...)
				at := len(reqs)
				if statAfter {
					reqs = append(reqs, mkReq(opStatFile, "/chg/f.bin"))
				}
				reqs = append(reqs, open)
				if ch.size >= 0 {
					reqs = append(reqs, rdReq(0, 200), rdReq(20000, 3000), rdReq(uint64(max(ch.size-5, 0)), 100), rdReq(49990, 100))
					if ch.size >= 10 {
						reqs = append(reqs, rdcReq(uint64(ch.size-10), 10), rdcReq(0, 10))
					}
				} else {
					reqs = append(reqs, mkReq(opStatFile, "/chg/f.bin"), mkReq(opOpenFile, "/chg/other.bin"), rdReq(0, 300))
				}
				m := newModel(w.Root, false)
				res := runSession(t, SrvOpts{Root: w.Root}, m, reqs, Delivery{Before: map[int]func(){at: ch.do}})
				r.Transition(int64(len(res.Steps)))
				r.Eval(1)
				key := sprintf("changed-file|%s|%d|%v", ch.name, bi, statAfter)
				r.State(key)
				r.Nontrivial(key)
				for _, st := range res.Steps {
					r.Outcome("changed:" + st.Class)
				}
				if res.Why != "" {
					r.Violation("C02:changed-file:"+res.WhySig, sprintf("/chg/f.bin %s before request %d: %s", ch.name, at, res.Why), map[string]any{"change": ch.name, "requests": reqs, "steps": res.Steps})
				}
			}
		}
	}
	os.RemoveAll(filepath.Join(w.Root, "chg"))
}

func c02Overlap(t *testing.T, r *Reporter, w *World, objs []c02Obj, idx *int) {
	var cand []c02Obj
	for _, o := range objs {
		ro := o.obj
		if ro == nil {
			ro = fileObj(filepath.Join(w.Root, filepath.FromSlash(strings.TrimPrefix(o.path, "/"))))
		}
		if ro == nil || ro.size < 3000 || ro.size > 1<<20 {
			continue
		}
		o.obj = ro
		cand = append(cand, o)
	}
	for _, bs := range []int64{0, 1000} {
		for _, crit := range []bool{false, true} {
			for _, a := range cand {
				for _, b := range cand {
					*idx++
					if !r.Mine(*idx) || r.TimeUp() {
						continue
					}
					key := sprintf("overlap|%s|%s|crit=%v|buf=%d", a.path, b.path, crit, bs)
					r.State(key)
					r.Nontrivial(key)
					r.Eval(1)
					why := ""
					synctest.Test(t, func(t *testing.T) {
						s := startSrv(SrvOpts{Root: w.Root, BufSize: bs})
						defer s.Shutdown()
						read := func(o c02Obj) Req {
							n := uint32(min(o.obj.size-1, 200000))
							if crit {
								return rdcReq(1, n)
							}
							return rdReq(1, n)
						}
						hdr := 4
						if crit {
							hdr = 0
						}
						check := func(who string, o c02Obj, got []byte) {
							rq := read(o)
							if why != "" {
								return
							}
							if len(got) != szOpenFile+hdr+int(rq.Limit) {
								why = sprintf("%s (%s): %d response bytes, want %d", who, o.path, len(got), szOpenFile+hdr+int(rq.Limit))
								return
							}
							data, want := append([]byte{}, got[szOpenFile+hdr:]...), append([]byte{}, o.obj.read(1, int(rq.Limit))...)
							if o.obj.mask != nil {
								o.obj.mask(1, data)
								o.obj.mask(1, want)
							}
							if !bytes.Equal(data, want) {
								why = sprintf("%s (%s): %s", who, o.path, describeDiff(data, want))
							}
						}
						ca := s.Dial(nil)
						ca.outCap = 700
						ca.Send(mkReq(opOpenFile, a.path).Encode())
						ca.Send(read(a).Encode())
						synctest.Wait()
						gotA := ca.TakeN(szOpenFile + hdr + 1)
						synctest.Wait()
						cb := s.Dial(nil)
						cb.Send(mkReq(opOpenFile, b.path).Encode())
						cb.Send(read(b).Encode())
						synctest.Wait()
						check("the second client", b, cb.Take())
						cb.Fin()
						for {
							x := ca.TakeN(650)
							synctest.Wait()
							if len(x) == 0 {
								break
							}
							gotA = append(gotA, x...)
						}
						check("the slow client", a, gotA)
						ca.Fin()
						synctest.Wait()
						r.Transition(4)
					})
					if why != "" {
						r.Outcome("overlap:bad")
						r.Violation("C02:overlap:"+a.kind+"+"+b.kind, sprintf("two connections transferring at the same time (slow receiver reads %s, meanwhile another client reads %s, critical=%v, buffer %d): %s", a.path, b.path, crit, bs, why), map[string]any{"slow": a.path, "other": b.path, "critical": crit, "buffer_size": bs})
					} else {
						r.Outcome("overlap:ok")
					}
				}
			}
		}
	}
}
