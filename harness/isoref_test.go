package verifh

import (
	"bytes"
	"encoding/binary"
	"fmt"
	"sort"
	"strings"
	"unicode/utf16"
)

// Reference ECMA-119 (ISO 9660) + Joliet reader and strict validator, written from the standard.
// It works on an image accessor (so that multi-GiB images need not be in memory).

const isoSector = 2048

type isoImage interface {
	Size() int64
	At(off int64, n int) []byte // exactly n bytes (zero-filled past the end)
}

type memImage []byte

func (m memImage) Size() int64 { return int64(len(m)) }
func (m memImage) At(off int64, n int) []byte {
	out := make([]byte, n)
	if off < int64(len(m)) {
		copy(out, m[off:])
	}
	return out
}

type isoExtent struct {
	LBA uint32
	Len uint32
}

type isoNode struct {
	Name     string // decoded identifier
	RawID    []byte
	IsDir    bool
	Extents  []isoExtent // files: one or more; dirs: exactly one
	Size     int64
	Children []*isoNode
	Parent   *isoNode
	RecTime  [7]byte
}

type isoProblems struct {
	list []string
	sigs map[string]bool
}

func (p *isoProblems) add(sig, f string, a ...any) {
	if p.sigs == nil {
		p.sigs = map[string]bool{}
	}
	if len(p.list) < 40 {
		p.list = append(p.list, sig+": "+fmt.Sprintf(f, a...))
	}
	p.sigs[sig] = true
}

type volDesc struct {
	Sector        int64
	Type          byte
	SpaceSize     uint32
	PathTableSize uint32
	LLoc, MLoc    uint32
	RootLBA       uint32
	RootLen       uint32
	VolumeID      []byte
	Joliet        bool
}

func both32(b []byte, what string, p *isoProblems) uint32 {
	le := binary.LittleEndian.Uint32(b[0:4])
	be := binary.BigEndian.Uint32(b[4:8])
	if le != be {
		p.add("both-endian-mismatch", "%s: little-endian %d != big-endian %d", what, le, be)
	}
	return le
}
func both16(b []byte, what string, p *isoProblems) uint16 {
	le := binary.LittleEndian.Uint16(b[0:2])
	be := binary.BigEndian.Uint16(b[2:4])
	if le != be {
		p.add("both-endian-mismatch", "%s: little-endian %d != big-endian %d", what, le, be)
	}
	return le
}

func parseVolDesc(img isoImage, sector int64, p *isoProblems) *volDesc {
	d := img.At(sector*isoSector, isoSector)
	v := &volDesc{Sector: sector, Type: d[0]}
	if string(d[1:6]) != "CD001" {
		p.add("descriptor-id", "sector %d: standard identifier %q", sector, d[1:6])
	}
	if v.Type == 255 {
		if d[6] != 1 {
			p.add("terminator-version", "sector %d: volume descriptor set terminator has version %d, ECMA-119 8.3.3 requires 1", sector, d[6])
		}
		return v
	}
	if d[6] != 1 {
		p.add("descriptor-version", "sector %d: descriptor version %d", sector, d[6])
	}
	v.VolumeID = d[40:72]
	v.SpaceSize = both32(d[80:88], fmt.Sprintf("volume space size (sector %d)", sector), p)
	if s := both16(d[120:124], "volume set size", p); s != 1 {
		p.add("volume-set-size", "sector %d: volume set size %d", sector, s)
	}
	if s := both16(d[124:128], "volume sequence number", p); s != 1 {
		p.add("volume-seq", "sector %d: volume sequence number %d", sector, s)
	}
	if s := both16(d[128:132], "logical block size", p); s != 2048 {
		p.add("block-size", "sector %d: logical block size %d", sector, s)
	}
	v.PathTableSize = both32(d[132:140], "path table size", p)
	v.LLoc = binary.LittleEndian.Uint32(d[140:144])
	v.MLoc = binary.BigEndian.Uint32(d[148:152])
	root := d[156:190]
	if root[0] != 34 {
		p.add("root-record-length", "sector %d: root directory record length %d, want 34", sector, root[0])
	}
	v.RootLBA = both32(root[2:10], "root extent", p)
	v.RootLen = both32(root[10:18], "root length", p)
	if root[25]&2 == 0 {
		p.add("root-not-dir", "sector %d: root record lacks the directory flag", sector)
	}
	if d[881] != 1 {
		p.add("file-structure-version", "sector %d: file structure version %d", sector, d[881])
	}
	esc := d[88:120]
	v.Joliet = v.Type == 2 && (bytes.HasPrefix(esc, []byte("%/@")) || bytes.HasPrefix(esc, []byte("%/C")) || bytes.HasPrefix(esc, []byte("%/E")))
	return v
}

func decodeID(raw []byte, joliet bool) string {
	if !joliet {
		return string(raw)
	}
	if len(raw)%2 != 0 {
		return "\x00odd:" + string(raw)
	}
	u := make([]uint16, len(raw)/2)
	for i := range u {
		u[i] = binary.BigEndian.Uint16(raw[2*i:])
	}
	return string(utf16.Decode(u))
}

type isoRecord struct {
	Off     int64
	Len     int
	LBA     uint32
	DataLen uint32
	Flags   byte
	ID      []byte
	Time    [7]byte
}

// readDirRecords parses the records of a directory extent, validating record framing.
func readDirRecords(img isoImage, lba, length uint32, what string, p *isoProblems) []isoRecord {
	var recs []isoRecord
	if length%isoSector != 0 {
		p.add("dir-extent-not-sector-multiple", "%s: directory data length %d is not a whole number of sectors", what, length)
	}
	if length > 64<<20 {
		p.add("dir-extent-huge", "%s: directory data length %d", what, length)
		return nil
	}
	start := int64(lba) * isoSector
	if start+int64(length) > img.Size() {
		p.add("extent-outside-volume", "%s: directory extent [%d,+%d) exceeds image size %d", what, start, length, img.Size())
		return nil
	}
	data := img.At(start, int(length))
	pos := 0
	for pos < len(data) {
		l := int(data[pos])
		if l == 0 {
			// rest of this sector must be zero
			next := (pos/isoSector + 1) * isoSector
			for i := pos; i < next && i < len(data); i++ {
				if data[i] != 0 {
					p.add("dir-padding-nonzero", "%s: non-zero byte at +%d after the last record of a sector (a record straddles or was cut)", what, i)
					break
				}
			}
			pos = next
			continue
		}
		if pos/isoSector != (pos+l-1)/isoSector {
			p.add("record-straddles-sector", "%s: record at +%d of length %d crosses a sector boundary", what, pos, l)
		}
		if pos+l > len(data) || l < 34 {
			p.add("record-length", "%s: record at +%d has length byte %d (extent length %d)", what, pos, l, len(data))
			break
		}
		rec := data[pos : pos+l]
		idLen := int(rec[32])
		need := 33 + idLen
		if idLen%2 == 0 {
			need++
		}
		if need > l {
			p.add("record-length-byte-too-small", "%s: record at +%d: length byte %d but identifier of %d bytes needs %d (length byte overflow?)", what, pos, l, idLen, need)
			break
		}
		r := isoRecord{Off: start + int64(pos), Len: l, Flags: rec[25], ID: append([]byte{}, rec[33:33+idLen]...)}
		r.LBA = both32(rec[2:10], what+" record extent", p)
		r.DataLen = both32(rec[10:18], what+" record length", p)
		copy(r.Time[:], rec[18:25])
		if vs := both16(rec[28:32], what+" record volume sequence", p); vs != 1 {
			p.add("record-volume-seq", "%s: record at +%d volume sequence number %d", what, pos, vs)
		}
		if rec[1] != 0 || rec[26] != 0 || rec[27] != 0 {
			p.add("record-interleave", "%s: record at +%d has extended attribute/interleave fields set", what, pos)
		}
		if idLen%2 == 0 && rec[33+idLen] != 0 {
			p.add("record-pad-nonzero", "%s: record at +%d identifier padding byte is %#x", what, pos, rec[33+idLen])
		}
		recs = append(recs, r)
		pos += l
	}
	return recs
}

type isoHierarchy struct {
	Desc *volDesc
	Root *isoNode
	Dirs []*isoNode // all directories in walk order (root first)
}

// walkHierarchy reads the directory tree reachable from the descriptor's root record.
func walkHierarchy(img isoImage, v *volDesc, p *isoProblems) *isoHierarchy {
	tag := "primary"
	if v.Joliet {
		tag = "joliet"
	}
	h := &isoHierarchy{Desc: v}
	root := &isoNode{Name: "", IsDir: true, Extents: []isoExtent{{v.RootLBA, v.RootLen}}}
	h.Root = root
	seen := map[uint32]bool{}
	var walk func(n *isoNode, path string, depth int)
	walk = func(n *isoNode, path string, depth int) {
		if depth > 64 || seen[n.Extents[0].LBA] {
			p.add("dir-loop", "%s %q: directory extent %d visited twice or depth exceeded", tag, path, n.Extents[0].LBA)
			return
		}
		seen[n.Extents[0].LBA] = true
		h.Dirs = append(h.Dirs, n)
		what := fmt.Sprintf("%s dir %q", tag, path)
		recs := readDirRecords(img, n.Extents[0].LBA, n.Extents[0].Len, what, p)
		if len(recs) < 2 {
			p.add("dir-missing-dot-entries", "%s: fewer than two records", what)
			return
		}
		// '.' and '..'
		if !(len(recs[0].ID) == 1 && recs[0].ID[0] == 0) || !(len(recs[1].ID) == 1 && recs[1].ID[0] == 1) {
			p.add("dir-missing-dot-entries", "%s: first two records are not '.' and '..'", what)
		}
		if recs[0].LBA != n.Extents[0].LBA || recs[0].DataLen != n.Extents[0].Len || recs[0].Flags&2 == 0 {
			p.add("dot-link", "%s: '.' record points to extent %d len %d, directory is at %d len %d", what, recs[0].LBA, recs[0].DataLen, n.Extents[0].LBA, n.Extents[0].Len)
		}
		par := n
		if n.Parent != nil {
			par = n.Parent
		}
		if recs[1].LBA != par.Extents[0].LBA || recs[1].DataLen != par.Extents[0].Len || recs[1].Flags&2 == 0 {
			p.add("dotdot-link", "%s: '..' record points to extent %d len %d, parent is at %d len %d", what, recs[1].LBA, recs[1].DataLen, par.Extents[0].LBA, par.Extents[0].Len)
		}
		var cur *isoNode
		for _, r := range recs[2:] {
			name := decodeID(r.ID, v.Joliet)
			if len(r.ID) == 0 {
				p.add("empty-identifier", "%s: record with empty identifier", what)
				continue
			}
			if r.Flags&2 != 0 {
				if cur != nil {
					p.add("multi-extent-unterminated", "%s: file %q multi-extent chain not terminated", what, cur.Name)
					cur = nil
				}
				c := &isoNode{Name: name, RawID: r.ID, IsDir: true, Extents: []isoExtent{{r.LBA, r.DataLen}}, Parent: n, RecTime: r.Time}
				n.Children = append(n.Children, c)
				continue
			}
			if cur != nil {
				if !bytes.Equal(cur.RawID, r.ID) {
					p.add("multi-extent-name-change", "%s: multi-extent chain of %q continued by %q", what, cur.Name, name)
				}
				cur.Extents = append(cur.Extents, isoExtent{r.LBA, r.DataLen})
				cur.Size += int64(r.DataLen)
				if r.Flags&0x80 == 0 {
					cur = nil
				}
				continue
			}
			c := &isoNode{Name: name, RawID: r.ID, Extents: []isoExtent{{r.LBA, r.DataLen}}, Size: int64(r.DataLen), Parent: n, RecTime: r.Time}
			n.Children = append(n.Children, c)
			if r.Flags&0x80 != 0 {
				cur = c
			}
		}
		if cur != nil {
			p.add("multi-extent-unterminated", "%s: file %q multi-extent chain not terminated", what, cur.Name)
		}
		// duplicate identifiers
		ids := map[string]int{}
		for _, c := range n.Children {
			ids[string(c.RawID)]++
		}
		for id, k := range ids {
			if k > 1 {
				p.add("duplicate-identifier", "%s: identifier %q occurs %d times", what, decodeID([]byte(id), v.Joliet), k)
			}
		}
		for _, c := range n.Children {
			if c.IsDir {
				walk(c, path+"/"+c.Name, depth+1)
			}
		}
	}
	walk(root, "", 0)
	return h
}

type ptRec struct {
	LBA    uint32
	Parent uint16
	ID     []byte
}

func parsePathTable(img isoImage, lba, size uint32, order binary.ByteOrder, what string, p *isoProblems) []ptRec {
	if int64(lba)*isoSector+int64(size) > img.Size() || size > 16<<20 {
		p.add("extent-outside-volume", "%s at sector %d size %d exceeds the image", what, lba, size)
		return nil
	}
	data := img.At(int64(lba)*isoSector, int(size))
	var out []ptRec
	pos := 0
	for pos < len(data) {
		l := int(data[pos])
		if l == 0 {
			p.add("path-table-zero-record", "%s: zero-length identifier at +%d inside the announced table size %d", what, pos, size)
			break
		}
		n := 8 + l + l%2
		if pos+n > len(data) {
			p.add("path-table-truncated", "%s: record at +%d (id length %d) exceeds table size %d", what, pos, l, size)
			break
		}
		out = append(out, ptRec{LBA: order.Uint32(data[pos+2:]), Parent: order.Uint16(data[pos+6:]), ID: append([]byte{}, data[pos+8:pos+8+l]...)})
		if data[pos+1] != 0 {
			p.add("path-table-ext-attr", "%s: record at +%d extended attribute length %d", what, pos, data[pos+1])
		}
		pos += n
	}
	return out
}

type isoParsed struct {
	PVD, SVD *volDesc
	Primary  *isoHierarchy
	Joliet   *isoHierarchy
	Problems isoProblems
}

type span struct {
	a, b int64
	what string
}

// parseAndValidateISO reads both hierarchies and checks the structural invariants of C08.
func parseAndValidateISO(img isoImage, announcedSize int64, ps3 bool, titleID string) *isoParsed {
	res := &isoParsed{}
	p := &res.Problems
	size := img.Size()
	if size%isoSector != 0 {
		p.add("size-not-sector-multiple", "image size %d is not a multiple of 2048", size)
	}
	if size != announcedSize {
		p.add("size-announced-mismatch", "image has %d bytes, announced size is %d", size, announcedSize)
	}
	if size < 19*isoSector {
		p.add("too-small", "image of %d bytes cannot hold the descriptors", size)
		return res
	}
	res.PVD = parseVolDesc(img, 16, p)
	res.SVD = parseVolDesc(img, 17, p)
	term := parseVolDesc(img, 18, p)
	if res.PVD.Type != 1 {
		p.add("descriptor-order", "sector 16 descriptor type %d, want 1 (primary)", res.PVD.Type)
	}
	if res.SVD.Type != 2 || !res.SVD.Joliet {
		p.add("descriptor-order", "sector 17 descriptor type %d joliet=%v, want supplementary with a UCS-2 escape sequence", res.SVD.Type, res.SVD.Joliet)
	}
	if term.Type != 255 {
		p.add("descriptor-order", "sector 18 descriptor type %d, want 255 (terminator)", term.Type)
	}
	tb := img.At(18*isoSector, isoSector)
	for i := 7; i < isoSector; i++ {
		if tb[i] != 0 {
			p.add("terminator-nonzero", "terminator descriptor has non-zero byte at +%d", i)
			break
		}
	}
	if res.PVD.Type != 1 || res.SVD.Type != 2 {
		return res
	}
	for _, v := range []*volDesc{res.PVD, res.SVD} {
		if int64(v.SpaceSize)*isoSector != size {
			p.add("volume-space-size", "descriptor at sector %d: volume space size %d sectors = %d bytes, image has %d", v.Sector, v.SpaceSize, int64(v.SpaceSize)*isoSector, size)
		}
	}
	var spans []span
	spans = append(spans, span{0, 16 * isoSector, "system area"}, span{16 * isoSector, 19 * isoSector, "volume descriptors"})
	addSpan := func(lba uint32, length int64, what string) {
		if length == 0 {
			return
		}
		a := int64(lba) * isoSector
		b := a + (length+isoSector-1)/isoSector*isoSector
		if b > size || a < 0 {
			p.add("extent-outside-volume", "%s: [%d,%d) outside image of %d bytes", what, a, b, size)
		}
		spans = append(spans, span{a, b, what})
	}
	// data spans (exact byte ranges carrying content) for the zero-padding check
	type dspan struct{ a, b int64 }
	var used []dspan
	used = append(used, dspan{16 * isoSector, 19 * isoSector})
	if ps3 {
		used = append(used, dspan{0, 2 * isoSector})
	}

	for hi, v := range []*volDesc{res.PVD, res.SVD} {
		tag := []string{"primary", "joliet"}[hi]
		h := walkHierarchy(img, v, p)
		if hi == 0 {
			res.Primary = h
		} else {
			res.Joliet = h
		}
		// child link consistency: the record in the parent must equal the child's '.' (checked in walk via Extents)
		for _, d := range h.Dirs {
			addSpan(d.Extents[0].LBA, int64(d.Extents[0].Len), fmt.Sprintf("%s directory %q", tag, d.Name))
			used = append(used, dspan{int64(d.Extents[0].LBA) * isoSector, int64(d.Extents[0].LBA)*isoSector + int64(d.Extents[0].Len)})
		}
		// path tables
		lt := parsePathTable(img, v.LLoc, v.PathTableSize, binary.LittleEndian, tag+" L path table", p)
		mt := parsePathTable(img, v.MLoc, v.PathTableSize, binary.BigEndian, tag+" M path table", p)
		addSpan(v.LLoc, int64(v.PathTableSize), tag+" L path table")
		addSpan(v.MLoc, int64(v.PathTableSize), tag+" M path table")
		used = append(used, dspan{int64(v.LLoc) * isoSector, int64(v.LLoc)*isoSector + int64(v.PathTableSize)}, dspan{int64(v.MLoc) * isoSector, int64(v.MLoc)*isoSector + int64(v.PathTableSize)})
		if len(lt) != len(mt) {
			p.add("path-table-LM-differ", "%s: L table has %d records, M table %d", tag, len(lt), len(mt))
		} else {
			for i := range lt {
				if lt[i].LBA != mt[i].LBA || lt[i].Parent != mt[i].Parent || !bytes.Equal(lt[i].ID, mt[i].ID) {
					p.add("path-table-LM-differ", "%s: record %d differs between L and M tables", tag, i+1)
					break
				}
			}
		}
		// completeness and correctness: every directory appears exactly once with its extent and its parent's number
		byLBA := map[uint32]int{}
		for i, r := range lt {
			if _, dup := byLBA[r.LBA]; dup {
				p.add("path-table-duplicate", "%s: extent %d listed twice in the path table", tag, r.LBA)
			}
			byLBA[r.LBA] = i + 1
		}
		if len(lt) > 0 {
			if lt[0].LBA != h.Root.Extents[0].LBA || lt[0].Parent != 1 || !(len(lt[0].ID) == 1 && lt[0].ID[0] == 0) {
				p.add("path-table-root", "%s: first path table record is not the root (extent %d parent %d id %x)", tag, lt[0].LBA, lt[0].Parent, lt[0].ID)
			}
		}
		if len(h.Dirs) <= 0xFFFF && len(lt) != len(h.Dirs) {
			p.add("path-table-incomplete", "%s: path table has %d records, hierarchy has %d directories", tag, len(lt), len(h.Dirs))
		}
		for _, d := range h.Dirs {
			num, ok := byLBA[d.Extents[0].LBA]
			if !ok {
				if len(h.Dirs) <= 0xFFFF {
					p.add("path-table-incomplete", "%s: directory %q (extent %d) missing from the path table", tag, d.Name, d.Extents[0].LBA)
				}
				continue
			}
			r := lt[num-1]
			if d.Parent != nil {
				pn := byLBA[d.Parent.Extents[0].LBA]
				if int(r.Parent) != pn {
					p.add("path-table-parent", "%s: directory %q has parent number %d, its parent is record %d", tag, d.Name, r.Parent, pn)
				}
				if int(r.Parent) >= num {
					p.add("path-table-order", "%s: directory %q (record %d) is listed before its parent (record %d)", tag, d.Name, num, r.Parent)
				}
				if !bytes.Equal(r.ID, d.RawID) {
					p.add("path-table-name", "%s: path table names record %d %q, the directory record says %q", tag, num, decodeID(r.ID, v.Joliet), d.Name)
				}
			}
		}
		// files
		var files func(n *isoNode)
		files = func(n *isoNode) {
			for _, c := range n.Children {
				if c.IsDir {
					files(c)
					continue
				}
				for i, e := range c.Extents {
					if hi == 0 {
						addSpan(e.LBA, int64(e.Len), fmt.Sprintf("file %q extent %d", c.Name, i))
						used = append(used, dspan{int64(e.LBA) * isoSector, int64(e.LBA)*isoSector + int64(e.Len)})
					}
					if int64(e.LBA)*isoSector+int64(e.Len) > size {
						p.add("extent-outside-volume", "%s file %q extent %d [%d,+%d) outside the image", tag, c.Name, i, int64(e.LBA)*isoSector, e.Len)
					}
					if i < len(c.Extents)-1 && e.Len%isoSector != 0 {
						p.add("multi-extent-part-unaligned", "%s file %q: non-final extent of %d bytes", tag, c.Name, e.Len)
					}
				}
			}
		}
		files(h.Root)
	}
	// both hierarchies describe the same volume: same shape, same file extents
	if res.Primary != nil && res.Joliet != nil {
		var cmpH func(a, b *isoNode, path string)
		cmpH = func(a, b *isoNode, path string) {
			var af, bf []string
			var ad, bd []*isoNode
			for _, c := range a.Children {
				if c.IsDir {
					ad = append(ad, c)
				} else {
					af = append(af, fmt.Sprint(c.Extents))
				}
			}
			for _, c := range b.Children {
				if c.IsDir {
					bd = append(bd, c)
				} else {
					bf = append(bf, fmt.Sprint(c.Extents))
				}
			}
			sort.Strings(af)
			sort.Strings(bf)
			if len(ad) != len(bd) || strings.Join(af, "|") != strings.Join(bf, "|") {
				p.add("hierarchies-disagree", "directory %q: primary hierarchy has %d directories / %d files, Joliet has %d / %d, or their file extents differ", path, len(ad), len(af), len(bd), len(bf))
				return
			}
			for i := range ad {
				cmpH(ad[i], bd[i], path+"/"+ad[i].Name)
			}
		}
		cmpH(res.Primary.Root, res.Joliet.Root, "")
	}
	// overlap check
	sort.Slice(spans, func(i, j int) bool { return spans[i].a < spans[j].a })
	for i := 1; i < len(spans); i++ {
		if spans[i].a < spans[i-1].b {
			p.add("extents-overlap", "%s [%d,%d) overlaps %s [%d,%d)", spans[i-1].what, spans[i-1].a, spans[i-1].b, spans[i].what, spans[i].a, spans[i].b)
			break
		}
	}
	// zero padding: every byte not inside a used data span must be zero (checked on images <= 64 MiB)
	if size <= 64<<20 {
		sort.Slice(used, func(i, j int) bool { return used[i].a < used[j].a })
		pos := int64(0)
		checkZero := func(a, b int64) {
			if b > size {
				b = size
			}
			for a < b {
				n := b - a
				if n > 1<<20 {
					n = 1 << 20
				}
				blk := img.At(a, int(n))
				for i, x := range blk {
					if x != 0 {
						p.add("padding-nonzero", "byte at offset %d (sector %d) is %#x but belongs to no structure or file", a+int64(i), (a+int64(i))/isoSector, x)
						return
					}
				}
				a += n
			}
		}
		for _, u := range used {
			if u.a > pos {
				checkZero(pos, u.a)
			}
			if u.b > pos {
				pos = u.b
			}
		}
		checkZero(pos, size)
	}
	// PS3 sectors
	if ps3 {
		s0 := img.At(0, isoSector)
		if binary.BigEndian.Uint32(s0[0:]) != 1 || binary.BigEndian.Uint32(s0[4:]) != 0 || binary.BigEndian.Uint32(s0[8:]) != 0 ||
			int64(binary.BigEndian.Uint32(s0[12:])) != size/isoSector-1 {
			p.add("ps3-sector0", "sector 0 is {count=%d, %d, start=%d, end=%d}, want {1, 0, 0, %d}", binary.BigEndian.Uint32(s0[0:]), binary.BigEndian.Uint32(s0[4:]), binary.BigEndian.Uint32(s0[8:]), binary.BigEndian.Uint32(s0[12:]), size/isoSector-1)
		}
		for i := 16; i < isoSector; i++ {
			if s0[i] != 0 {
				p.add("ps3-sector0", "sector 0 has non-zero byte at +%d", i)
				break
			}
		}
		s1 := img.At(isoSector, isoSector)
		if string(s1[:16]) != "PlayStation3    " {
			p.add("ps3-sector1-console", "sector 1 console id %q", s1[:16])
		}
		want := titleID
		if len(titleID) >= 4 {
			want = titleID[:4] + "-" + titleID[4:]
		}
		got := strings.TrimRight(string(s1[16:48]), " ")
		if got != want {
			p.add("ps3-sector1-product", "sector 1 product code %q, want %q (TITLE_ID %q)", got, want, titleID)
		}
	}
	return res
}

// extentBytes returns n bytes of a file node at file offset off by following its extent chain.
func (n *isoNode) readAt(img isoImage, off int64, cnt int) []byte {
	out := make([]byte, 0, cnt)
	pos := int64(0)
	for _, e := range n.Extents {
		el := int64(e.Len)
		if off < pos+el && cnt > 0 {
			a := off - pos
			if a < 0 {
				a = 0
			}
			k := el - a
			if k > int64(cnt) {
				k = int64(cnt)
			}
			out = append(out, img.At(int64(e.LBA)*isoSector+a, int(k))...)
			cnt -= int(k)
			off += k
		}
		pos += el
	}
	return out
}
