package verifh

import (
	"bufio"
	"errors"
	"fmt"
	"io"
	"net"
	"os"
	"os/exec"
	"path/filepath"
	"regexp"
	"strings"
	"syscall"
	"time"
)

// Black-box driver for the real binary (built from /repo's working tree by the driver with the default toolchain).

type BinSrv struct {
	cmd     *exec.Cmd
	Addr    string
	LogPath string
	exited  chan struct{}
	exitErr error
}

var listenRx = regexp.MustCompile(`Listening\.\.\..*?((?:\d+\.\d+\.\d+\.\d+|\[[0-9a-f:]+\]):\d+)`)
var debugListenRx = regexp.MustCompile(`Debug sever listening\.\.\..*?((?:\d+\.\d+\.\d+\.\d+|\[[0-9a-f:]+\]):\d+)`)

func binPath() string { return os.Getenv("VERIF_BIN") }

// cleanEnv: a minimal environment so that the operator's own configuration never leaks into a probe.
func cleanEnv(home string, extra ...string) []string {
	env := []string{"PATH=/usr/bin:/bin", "HOME=" + home, "XDG_CONFIG_HOME=" + filepath.Join(home, "xdg"), "TMPDIR=" + home}
	if d := os.Getenv("VERIF_BINCOVER"); d != "" {
		env = append(env, "GOCOVERDIR="+d) // development aid: the binary was built with -cover
	}
	return append(env, extra...)
}

// startBin starts `ps3netsrv-go <args>` with the given environment and working directory and waits until it
// announces its listening address or exits. wait bounds the wait (generous; only a failure to start in time is
// reported as such).
func startBin(args, env []string, cwd, logPath string, wait time.Duration) (*BinSrv, error) {
	return startBinLimited(args, env, cwd, logPath, wait, 0)
}

// startBinLimitedV starts the server with at most vkb kilobytes of address space (ulimit -v).
func startBinLimitedV(args, env []string, cwd, logPath string, wait time.Duration, vkb int) (*BinSrv, error) {
	return startBinUlimit(args, env, cwd, logPath, wait, fmt.Sprintf("ulimit -v %d", vkb))
}

// startBinLimited: nofile > 0 starts the server with that many file descriptors at most (ulimit -n, soft and hard).
func startBinLimited(args, env []string, cwd, logPath string, wait time.Duration, nofile int) (*BinSrv, error) {
	ul := ""
	if nofile > 0 {
		ul = fmt.Sprintf("ulimit -n %d", nofile)
	}
	return startBinUlimit(args, env, cwd, logPath, wait, ul)
}

func startBinUlimit(args, env []string, cwd, logPath string, wait time.Duration, ulimit string) (*BinSrv, error) {
	lf, err := os.Create(logPath)
	if err != nil {
		return nil, err
	}
	cmd := exec.Command(binPath(), args...)
	if ulimit != "" {
		cmd = exec.Command("/bin/bash", append([]string{"-c", ulimit + " && exec \"$0\" \"$@\"", binPath()}, args...)...)
	}
	cmd.Env = env
	cmd.Dir = cwd
	cmd.Stdout = lf
	cmd.Stderr = lf
	cmd.SysProcAttr = &syscall.SysProcAttr{Setpgid: true}
	if err := cmd.Start(); err != nil {
		lf.Close()
		return nil, err
	}
	lf.Close()
	b := &BinSrv{cmd: cmd, LogPath: logPath, exited: make(chan struct{})}
	go func() { b.exitErr = cmd.Wait(); close(b.exited) }()
	deadline := time.Now().Add(wait)
	for {
		data, _ := os.ReadFile(logPath)
		if m := listenRx.FindSubmatch(data); m != nil {
			b.Addr = string(m[1])
			return b, nil
		}
		select {
		case <-b.exited:
			return b, fmt.Errorf("exited before listening: %v", b.exitErr)
		default:
		}
		if time.Now().After(deadline) {
			return b, errors.New("did not announce a listening address in time")
		}
		time.Sleep(10 * time.Millisecond)
	}
}

func (b *BinSrv) Log() string {
	d, _ := os.ReadFile(b.LogPath)
	return string(d)
}

func (b *BinSrv) Exited() bool {
	select {
	case <-b.exited:
		return true
	default:
		return false
	}
}

func (b *BinSrv) ExitCode() int {
	<-b.exited
	if b.cmd.ProcessState != nil {
		return b.cmd.ProcessState.ExitCode()
	}
	return -1
}

func (b *BinSrv) Stop() {
	if b == nil || b.cmd == nil || b.cmd.Process == nil {
		return
	}
	syscall.Kill(-b.cmd.Process.Pid, syscall.SIGKILL)
	<-b.exited
}

// tcpClient is a simple synchronous protocol client over real TCP.
type tcpClient struct {
	c net.Conn
	r *bufio.Reader
}

func dialFrom(addr, localIP string, timeout time.Duration) (*tcpClient, error) {
	d := net.Dialer{Timeout: timeout}
	if localIP != "" {
		d.LocalAddr = &net.TCPAddr{IP: net.ParseIP(localIP)}
	}
	c, err := d.Dial("tcp", addr)
	if err != nil {
		return nil, err
	}
	return &tcpClient{c: c, r: bufio.NewReader(c)}, nil
}

func (t *tcpClient) Close() { t.c.Close() }

// exchange sends a request and reads exactly n response bytes (or until EOF/timeout).
func (t *tcpClient) exchange(rq Req, n int, timeout time.Duration) ([]byte, error) {
	if _, err := t.c.Write(rq.Encode()); err != nil {
		return nil, err
	}
	return t.readN(n, timeout)
}

func (t *tcpClient) readN(n int, timeout time.Duration) ([]byte, error) {
	t.c.SetReadDeadline(time.Now().Add(timeout))
	buf := make([]byte, n)
	k, err := io.ReadFull(t.r, buf)
	return buf[:k], err
}

// statProbe reports whether Stat(path) is answered with an existing object.
func (t *tcpClient) statProbe(path string, timeout time.Duration) (answered bool, exists bool, err error) {
	resp, err := t.exchange(mkReq(opStatFile, path), szStat, timeout)
	if err != nil || len(resp) != szStat {
		return false, false, err
	}
	return true, int64(be64(resp)) != -1, nil
}

func isTimeout(err error) bool {
	var ne net.Error
	return errors.As(err, &ne) && ne.Timeout()
}

// runTool runs a one-shot subcommand (make-iso / decrypt) and returns exit code, stdout, stderr.
func runTool(args, env []string, cwd string, stdoutPath string, timeout time.Duration) (code int, stdout []byte, stderr string, err error) {
	cmd := exec.Command(binPath(), args...)
	cmd.Env = env
	cmd.Dir = cwd
	var outf *os.File
	if stdoutPath != "" {
		outf, err = os.Create(stdoutPath)
		if err != nil {
			return -1, nil, "", err
		}
		cmd.Stdout = outf
	}
	var eb strings.Builder
	cmd.Stderr = &eb
	var ob strings.Builder
	if outf == nil {
		cmd.Stdout = &ob
	}
	done := make(chan error, 1)
	if err = cmd.Start(); err != nil {
		return -1, nil, "", err
	}
	go func() { done <- cmd.Wait() }()
	select {
	case <-done:
	case <-time.After(timeout):
		cmd.Process.Kill()
		<-done
		if outf != nil {
			outf.Close()
		}
		return -2, nil, eb.String(), errors.New("tool timed out")
	}
	if outf != nil {
		outf.Close()
	}
	return cmd.ProcessState.ExitCode(), []byte(ob.String()), eb.String(), nil
}
