package verifh

import (
	"bytes"
	"encoding/hex"
	"os"
	"path/filepath"
	"syscall"
	"testing"
	"testing/synctest"
	"time"

	"github.com/spf13/afero"
)

// C13: handles are always released; I/O faults never produce wrong data.
// Environment-deviation exploration: one (quick) or two (thorough) deviations at every leaf filesystem operation
// index, and every way of ending the connection at every position class of the client script.

type c13Scenario struct {
	name  string
	reqs  []Req
	allow bool
	noF   bool  // responses contain random filler: skip stream comparison for write-error endings
	buf   int   // transfer buffer size (0: default 64k pooled, -1: unpooled)
	probe []Req // data-reading probe on a fresh connection afterwards (nil: files of the C02 world)
}

type faultPlan struct {
	At    map[int]FsFault `json:"-"`
	Desc  []string        `json:"faults,omitempty"`
	End   string          `json:"end,omitempty"` // fin | rst | timeout | werr
	Cut   int             `json:"cut,omitempty"`
	WFail int64           `json:"wfail,omitempty"`
	SlowTake bool         `json:"slow_client,omitempty"` // the client lets a quarter of Slow pass after every piece it takes
	Slow  time.Duration   `json:"slow_storage,omitempty"` // every open / read of the storage takes this long (virtual time): work started on behalf of a connection may still be under way when it ends
}

type c13Result struct {
	steps     []StepObs
	raw       [][]byte
	closed    bool
	why, sig  string
	leafOps   int
	events    []FsEvent
	stream    []byte
	leaked    []string
	probeOK   bool
	serveDone bool
}

const c13Timeout = 10 * time.Minute

func c13Run(t *testing.T, root string, sc c13Scenario, mk func() *Model, plan faultPlan, resetW func()) *c13Result {
	res := &c13Result{}
	if resetW != nil {
		resetW()
	}
	leaf := newVFs(afero.NewOsFs(), "leaf")
	leaf.Hook = func(e FsEvent) *FsFault {
		if plan.Slow > 0 && (e.Op == "Read" || e.Op == "ReadAt" || e.Op == "Open" || e.Op == "OpenFile") {
			time.Sleep(plan.Slow)
		}
		if f, ok := plan.At[e.Seq]; ok {
			return &f
		}
		return nil
	}
	m := mk()
	m.allowWrite = sc.allow
	fail := func(sig, why string) {
		if res.why == "" {
			res.why, res.sig = why, sig
		}
	}
	synctest.Test(t, func(t *testing.T) {
		s := startSrv(SrvOpts{Root: root, AllowWrite: sc.allow, Timeout: c13Timeout, BufSize: int64(sc.buf), LeafWrap: func(afero.Fs) afero.Fs { return leaf }})
		c := s.Dial(nil)
		if plan.End == "werr" {
			c.outFailAt = plan.WFail
		}
		if plan.End == "rstw" {
			c.outCap = 4096
		}
		synctest.Wait()
		sent := 0
		faulted := len(plan.At) > 0
		ended := false
		for i, rq := range sc.reqs {
			b := rq.Encode()
			if plan.End != "" && plan.End != "werr" && plan.End != "rstw" && sent+len(b) > plan.Cut {
				// deliver the partial request, then end the connection
				part := b[:plan.Cut-sent]
				c.Send(part)
				synctest.Wait()
				switch plan.End {
				case "fin":
					c.Fin()
				case "rst":
					c.Rst()
				case "timeout":
					time.Sleep(c13Timeout + time.Second)
				}
				synctest.Wait()
				resp, closed := c.Take(), c.ServerClosed()
				res.stream = append(res.stream, resp...)
				if !closed {
					fail("end:"+plan.End+":not-closed", sprintf("after %s at script byte %d (inside request %d %s) the server did not close the connection", plan.End, plan.Cut, i, rq))
				}
				if len(part) > 0 || plan.End != "fin" {
					tr := truncReq(rq, len(part))
					if plan.End == "fin" {
						if why, _ := m.Check(tr, resp, closed); why != "" {
							fail("end:fin:stray", sprintf("FIN inside request %d %s after %d bytes: %s", i, rq, len(part), why))
						}
					} else if len(resp) != 0 {
						fail("end:"+plan.End+":stray", sprintf("%s inside request %d %s after %d bytes: server wrote %s", plan.End, i, rq, len(part), hexHead(resp)))
					}
				} else if len(resp) != 0 {
					fail("end:fin:stray", sprintf("FIN at request boundary %d: server wrote %s", i, hexHead(resp)))
				}
				ended = true
				break
			}
			if plan.End == "rstw" {
				// the client receives through a 4096-byte window and resets the connection once it has taken WFail
				// response bytes: the server is typically blocked in the middle of writing a response then
				c.Send(b)
				sent += len(b)
				synctest.Wait()
				st := StepObs{Req: rq.String()}
				idle := 0
				for {
					x := c.Take()
					res.stream = append(res.stream, x...)
					if plan.SlowTake && len(x) > 0 {
						time.Sleep(plan.Slow / 4)
					}
					if int64(len(res.stream)) >= plan.WFail {
						c.Rst()
						synctest.Wait()
						if plan.Slow > 0 {
							// the server may be inside a slow open or read; it meets the reset at its next connection operation
							time.Sleep(20 * plan.Slow)
							synctest.Wait()
						}
						ended = true
						break
					}
					synctest.Wait()
					if len(x) == 0 {
						if plan.Slow == 0 || idle >= 3 {
							break
						}
						// slow storage: the server may be inside an open or read, not finished with the response
						idle++
						time.Sleep(5 * plan.Slow)
						synctest.Wait()
						continue
					}
					idle = 0
				}
				st.Closed = c.ServerClosed()
				res.steps = append(res.steps, st)
				if ended || st.Closed {
					if !st.Closed {
						fail("end:rstw:not-closed", sprintf("after a reset in the middle of the response to request %d %s (after %d response bytes) the server did not close the connection", i, rq, len(res.stream)))
					}
					ended = true
					break
				}
				continue
			}
			m.Pre(rq)
			resp, closed := s.Exchange(c, b)
			sent += len(b)
			res.raw = append(res.raw, resp)
			res.stream = append(res.stream, resp...)
			st := StepObs{Req: rq.String(), Resp: hexHead(resp), Closed: closed}
			if plan.End == "werr" {
				// judged on the whole stream afterwards
				res.steps = append(res.steps, st)
				if closed {
					ended = true
					break
				}
				continue
			}
			mc := m.clone()
			why, class := mc.Check(rq, resp, closed)
			switch {
			case why == "":
				*m = *mc
				st.Class = class
			case faulted && isFailureForm(rq, resp) && !closed:
				m.Fail(rq)
				if rq.Op == opOpenFile && mc.ro != nil {
					// the open was refused after the file had been opened internally: whether the handle is
					// kept is unobservable harm-free state; later reads may behave either way
					m.ro, m.roOptional = mc.ro, true
				}
				st.Class = "fault:failure-code"
			case faulted && rq.Op == opGetDirSize && !closed && len(resp) == 8 && int64(be64(resp)) >= 0 && int64(be64(resp)) <= dirSizeTruth(m.real(rq.Path)):
				// like a listing, a dir-size under faults may only lose entries
				st.Class = "fault:dirsize-lost-entries"
			case faulted && closed && c13PrefixOK(m, rq, resp):
				st.Class = "fault:prefix-then-close"
			default:
				st.Class = class
				fail(opName(rq.Op)+":"+class, sprintf("step %d %s: %s", i, rq, why))
			}
			if faulted && m.cwd != nil {
				m.cwd.fuzzy = true
			}
			if !closed && c.Pending() != 0 {
				fail(opName(rq.Op)+":unconsumed", sprintf("step %d %s: %d request bytes left unconsumed", i, rq, c.Pending()))
			}
			res.steps = append(res.steps, st)
			if closed {
				ended = true
				break
			}
		}
		if !ended {
			c.Fin()
			synctest.Wait()
			if extra := c.Take(); len(extra) != 0 {
				res.stream = append(res.stream, extra...)
				fail("stray-after-end", "stray bytes at connection end: "+hexHead(extra))
			}
		}
		synctest.Wait()
		res.closed = c.ServerClosed()
		if !res.closed {
			fail("not-closed", "server never closed the connection")
		}
		if plan.Slow > 0 {
			// whatever was still under way for the connection has had time to finish
			time.Sleep(20 * plan.Slow)
			synctest.Wait()
		}
		// every handle opened on behalf of the connection must be closed once it has ended
		res.leaked = leaf.Outstanding()
		if len(res.leaked) > 0 {
			fail("handle-leak", sprintf("connection ended but %d handle(s) stay open: %v", len(res.leaked), res.leaked))
		}
		// the server keeps serving new connections
		plan.At = nil
		plan.Slow = 0
		p := s.Dial(nil)
		pr, pclosed := s.Exchange(p, mkReq(opStatFile, "/").Encode())
		res.probeOK = len(pr) == szStat && !pclosed && int64(be64(pr)) == 0 && pr[32] == 1
		if !res.probeOK {
			fail("probe-failed", sprintf("fresh connection after the scenario is not served: closed=%v resp=%s", pclosed, hexHead(pr)))
		}
		// ... and it is served correct data (nothing of the broken connection may leak into it)
		pm := newModel(root, false)
		probeReqs := sc.probe
		if probeReqs == nil {
			probeReqs = []Req{mkReq(opOpenFile, "/plain/f2048.bin"), rdReq(3, 2000), rdcReq(0, 2048), mkReq(opOpenFile, "/plain/f65537.bin"), rdReq(100, 65000)}
		}
		for _, rq := range probeReqs {
			resp, cl := s.Exchange(p, rq.Encode())
			if w, _ := pm.Check(rq, resp, cl); w != "" {
				fail("probe-wrong-data", sprintf("fresh connection after the scenario: %s: %s", rq, w))
				break
			}
		}
		s.Shutdown()
		select {
		case <-s.done:
			res.serveDone = true
		default:
			fail("serve-stuck", "Serve did not return after listener close")
		}
		if l := leaf.Outstanding(); len(l) > 0 {
			fail("handle-leak", sprintf("after shutdown %d handle(s) stay open: %v", len(l), l))
		}
	})
	res.leafOps = leaf.Seq()
	res.events = leaf.Events()
	if res.why == "" && len(plan.At) == 0 && plan.End == "" {
		if w := m.Final(); w != "" {
			fail("upload-content", w)
		}
	}
	return res
}

// c13PrefixOK: under a fault a response may be a correct prefix followed by disconnection.
func c13PrefixOK(m *Model, rq Req, resp []byte) bool {
	switch rq.Op {
	case opReadFile:
		if len(resp) == 0 {
			return true
		}
		if m.ro == nil || m.ro.undefined || len(resp) < 4 {
			return len(resp) == 0
		}
		n := int64(int32(be32(resp)))
		if n < 0 || int64(len(resp)-4) > n {
			return false
		}
		return m.cmpContent(int64(rq.Off), resp[4:]) == ""
	case opReadFileCritical:
		if len(resp) == 0 {
			return true
		}
		if m.ro == nil || m.ro.undefined || int64(len(resp)) > int64(rq.Limit) || int64(rq.Off)+int64(len(resp)) > m.ro.size {
			return false
		}
		return m.cmpContent(int64(rq.Off), resp) == ""
	case opReadCD2048:
		if len(resp) == 0 {
			return true
		}
		if m.ro == nil || m.ro.undefined {
			return false
		}
		var want []byte
		for k := int64(rq.Start); k < int64(rq.Start)+int64(rq.Count); k++ {
			off := 24 + k*int64(m.ro.cdSector)
			if off+2048 <= m.ro.size {
				want = append(want, m.ro.read(off, 2048)...)
			}
		}
		return len(resp) <= len(want) && bytes.Equal(resp, want[:len(resp)])
	}
	return len(resp) == 0
}

func TestC13(t *testing.T) {
	r := NewReporter(t)
	defer r.Done()
	r.Rule("14 scenarios (plain reads with the default, a 1000-byte and no pooled transfer buffer, generated image DVD/PS3 with lazily opened members, redump with adjacent and with both keys, 3k3y, directory enumeration with symlinks, create/write/delete, dir-size, CD reads); per scenario: fault-free run numbers the N leaf filesystem operations, then an injected error (EIO, EINTR, EAGAIN) at every index, a legal short read (1 byte / half) at every Read, a partial write (half, then ENOSPC) at every Write, a short read followed by EINTR/EAGAIN at the next operations, thorough: every pair of deviations of any two kinds (i<j, deviation bound 2); and connection endings FIN / RST / idle timeout at every script byte position class write failure at every response byte position class, and a reset by a slowly receiving client (4096-byte send buffer, server blocked in Write) at every response byte position class, also on slow storage (every open and read takes 40 ms of virtual time, so work for the connection is still under way when it ends; and with a client that takes 4096 bytes every 10 ms, reset after every 4096 bytes of a large answer); 2700 requests on one connection and 400 short connections with four kinds of ending on one server; oracles: handle ledger empty after the connection ended, connection closed, fresh connection served, responses = model answer | failure code | correct prefix + disconnect; distinct by (scenario, deviation)")
	w, objs := buildC02World(t, r)
	defer w.Cleanup()
	// extras: both-keys image, directory with symlinks, writable dir, CD image
	pairs := []uint32{0, 2, 5, 7, 10, 11}
	disk2, _ := mkRedumpImage(12, pairs, c10Keys[1], 22)
	w.Data("x/PS3ISO/b.iso", disk2)
	w.Data("x/PS3ISO/b.dkey", []byte(hex.EncodeToString(c10Keys[1])))
	w.Data("x/REDKEY/b.dkey", []byte(hex.EncodeToString(c10Keys[0])))
	w.File("d/one.bin", 10, 1)
	w.MkDir("d/two")
	must(os.Symlink(filepath.Join(w.Root, "other.bin"), filepath.Join(w.Root, "d", "lnk")))
	must(os.Symlink(filepath.Join(w.Root, "nothing"), filepath.Join(w.Root, "d", "dangling")))
	mkCDImage(w.Root, cdImg{name: "cd.bin", sector: 2336, sig: "psx", size: 0x200000}, 3)
	special := map[string]*roObj{"/x/PS3ISO/b.iso": memObj("redump-both", refDecryptImage(disk2, pairs, c10Keys[1], false), nil)}
	for _, o := range objs {
		if o.obj != nil {
			special[o.path] = o.obj
		}
	}
	resetW := func() {
		os.RemoveAll(filepath.Join(w.Root, "w"))
		w.MkDir("w")
		w.File("w/old.txt", 7, 9)
	}
	resetW()
	mk := func() *Model {
		m := newModel(w.Root, false)
		m.objFor = func(m *Model, clean string) (*roObj, bool, bool) {
			if o, ok := special[clean]; ok {
				return o, true, true
			}
			return nil, false, false
		}
		return m
	}
	imgSize := uint64(special["/***DVD***/game"].size)
	scs := []c13Scenario{
		{name: "plain", reqs: []Req{mkReq(opOpenFile, "/plain/f65537.bin"), rdReq(0, 100), rdcReq(10, 20), rdReq(65530, 100), mkReq(opStatFile, "/other.bin"), rdcReq(60000, 5537), mkReq(opOpenFile, "/CLOSEFILE")}},
		{name: "image-dvd", reqs: []Req{mkReq(opOpenFile, "/***DVD***/game"), rdReq(0, 4096), rdcReq(imgSize-70*2048, 70*2048), rdReq(imgSize-100, 200), mkReq(opOpenFile, "/plain/f1.bin"), rdReq(0, 5)}},
		{name: "image-ps3", noF: true, reqs: []Req{mkReq(opOpenFile, "/***PS3***/game"), rdReq(0, 8192), rdcReq(2048*20, 2048*40)}},
		{name: "redump", reqs: []Req{mkReq(opOpenFile, "/PS3ISO/r.iso"), rdReq(6000, 300), rdcReq(2047, 2049*3), rdReq(0, 24576)}},
		{name: "redump-both-keys", reqs: []Req{mkReq(opOpenFile, "/x/PS3ISO/b.iso"), rdReq(2048*3+5, 5000), rdcReq(0, 24576)}},
		{name: "3k3y", reqs: []Req{mkReq(opOpenFile, "/k3/e.iso"), rdReq(0xF60, 300), rdcReq(2048*3-1, 4099), mkReq(opOpenFile, "/k3/d.iso"), rdReq(0xF00, 600)}},
		{name: "listing", reqs: []Req{mkReq(opOpenDir, "/d"), noargReq(opReadDirEntry), noargReq(opReadDirEntryV2), noargReq(opReadDir), mkReq(opOpenDir, "/d"), noargReq(opReadDir), mkReq(opOpenDir, "/d"), noargReq(opReadDirEntry), noargReq(opReadDirEntry), noargReq(opReadDirEntry), noargReq(opReadDirEntry), mkReq(opOpenDir, "/plain/f1.bin"), mkReq(opOpenDir, "/nope")}},
		{name: "upload", allow: true, reqs: []Req{mkReq(opCreateFile, "/w/n.bin"), wrReq(patBytes(3, 0, 70000)), wrReq([]byte("abc")), mkReq(opCreateFile, "/w/m.bin"), wrReq([]byte("xyz")), mkReq(opDeleteFile, "/w/n.bin"), mkReq(opMkdir, "/w/sub"), mkReq(opRmdir, "/w/sub"), mkReq(opCreateFile, "/w/old.txt")}},
		// transfers spanning several buffer chunks: a deviation may arrive after part of a response has been sent
		{name: "plain-buf1000", buf: 1000, reqs: []Req{mkReq(opOpenFile, "/plain/f65537.bin"), rdcReq(10, 3500), rdReq(5, 2500), rdcReq(65000, 537), mkReq(opOpenFile, "/cd.bin"), cdReq(1, 2)}},
		{name: "plain-unpooled", buf: -1, reqs: []Req{mkReq(opOpenFile, "/plain/f65537.bin"), rdcReq(10, 40000), rdReq(5, 40000), mkReq(opOpenFile, "/cd.bin"), cdReq(1, 2)}},
		{name: "upload-buf1000", allow: true, buf: 1000, reqs: []Req{mkReq(opCreateFile, "/w/n.bin"), wrReq(patBytes(3, 0, 3500)), wrReq([]byte("abc"))}},
		// one large transfer over the metadata and every member file of the image (members are opened while it runs)
		{name: "image-dvd-members", noF: true /* volume timestamps follow the clock */, reqs: []Req{mkReq(opOpenFile, "/***DVD***/game"), rdcReq(0, 150000)}},
		{name: "image-dvd-buf1000", noF: true, buf: 1000, reqs: []Req{mkReq(opOpenFile, "/***DVD***/game"), rdcReq(0, 120000), rdReq(imgSize-30*2048, 30*2048)}},
		{name: "dirsize-cd", reqs: []Req{mkReq(opGetDirSize, "/game"), mkReq(opGetDirSize, "/"), mkReq(opOpenFile, "/cd.bin"), cdReq(1, 2), cdReq(16, 1)}},
	}
	idx := 0
	for _, sc := range scs {
		base := c13Run(t, w.Root, sc, mk, faultPlan{}, resetW)
		r.Transition(int64(len(base.steps)))
		rep := func(p faultPlan, res *c13Result) map[string]any {
			return map[string]any{"scenario": sc.name, "requests": sc.reqs, "plan": p, "steps": res.steps}
		}
		if base.why != "" {
			if r.Shard == 0 {
				r.Violation("C13:"+sc.name+":fault-free:"+base.sig, "scenario "+sc.name+" without any deviation: "+base.why, rep(faultPlan{}, base))
			}
			continue
		}
		if r.Shard == 0 {
			r.Sample(map[string]any{"scenario": sc.name, "leaf_ops": base.leafOps, "steps": base.steps})
		}
		N := base.leafOps
		judge := func(p faultPlan, res *c13Result, kind string) {
			r.Transition(int64(len(res.steps)) + 1)
			r.Eval(1)
			key := sprintf("%s|%v|%s|%d|%d|%v|%v", sc.name, p.Desc, p.End, p.Cut, p.WFail, p.Slow, p.SlowTake)
			r.State(key)
			r.Nontrivial(key)
			for _, st := range res.steps {
				r.Outcome(st.Class)
			}
			if res.why != "" {
				r.Outcome("VIOLATION:" + res.sig)
				r.Violation("C13:"+sc.name+":"+kind+":"+res.sig, sprintf("scenario %s, deviation %v %s cut=%d wfail=%d: %s", sc.name, p.Desc, p.End, p.Cut, p.WFail, res.why), rep(p, res))
			}
		}
		one := func(i int, ev FsEvent, kind string) (faultPlan, bool) {
			f := FsFault{}
			switch kind {
			case "err":
				f.Err = syscall.EIO
			case "eintr":
				f.Err = syscall.EINTR
			case "eagain":
				f.Err = syscall.EAGAIN
			case "wpartial":
				if ev.Op != "Write" || ev.N < 2 {
					return faultPlan{}, false
				}
				f.Err, f.Short = syscall.ENOSPC, (ev.N+1)/2
			case "short1":
				if ev.Op != "Read" || ev.N < 2 {
					return faultPlan{}, false
				}
				f.Short = 1
			case "shorthalf":
				if ev.Op != "Read" || ev.N < 4 {
					return faultPlan{}, false
				}
				f.Short = (ev.N + 1) / 2
			}
			return faultPlan{At: map[int]FsFault{i: f}, Desc: []string{sprintf("%s@%d:%s(%s)", kind, i, ev.Op, filepath.Base(ev.Path))}}, true
		}
		// (1) one deviation at every leaf operation index
		for i := 0; i < N; i++ {
			for _, kind := range []string{"err", "eintr", "eagain", "short1", "shorthalf", "wpartial"} {
				idx++
				if !r.Mine(idx) {
					continue
				}
				p, ok := one(i, base.events[i], kind)
				if !ok {
					continue
				}
				res := c13Run(t, w.Root, sc, mk, p, resetW)
				judge(p, res, "fault")
				// (2a) a legal short read followed by a transient error (EINTR/EAGAIN) or a hard one at the next
				// operations: "retry" logic must not resend or re-announce what was already transferred
				if kind == "short1" || kind == "shorthalf" {
					span := 2
					if r.Thorough() {
						span = 6
					}
					for j := i + 1; j <= i+span && j < res.leafOps && j < len(res.events); j++ {
						for _, e2 := range []syscall.Errno{syscall.EINTR, syscall.EAGAIN, syscall.EIO} {
							if e2 == syscall.EIO && !r.Thorough() {
								continue
							}
							p2 := faultPlan{At: map[int]FsFault{i: p.At[i], j: {Err: e2}}, Desc: append(append([]string{}, p.Desc...), sprintf("%s@%d:%s(%s)", e2.Error(), j, res.events[j].Op, filepath.Base(res.events[j].Path)))}
							res2 := c13Run(t, w.Root, sc, mk, p2, resetW)
							judge(p2, res2, "fault2")
						}
					}
				}
				// (2) thorough: a second deviation of every kind at every later index of the diverged run (bound 2)
				if r.Thorough() {
					for j := i + 1; j < res.leafOps && j < len(res.events); j++ {
						if r.TimeUp() {
							break
						}
						for _, kind2 := range []string{"err", "eintr", "eagain", "short1", "shorthalf", "wpartial"} {
							q, ok := one(j, res.events[j], kind2)
							if !ok {
								continue
							}
							p2 := faultPlan{At: map[int]FsFault{i: p.At[i], j: q.At[j]}, Desc: append(append([]string{}, p.Desc...), q.Desc...)}
							res2 := c13Run(t, w.Root, sc, mk, p2, resetW)
							judge(p2, res2, "fault2")
						}
					}
				}
			}
			if r.TimeUp() {
				break
			}
		}
		// (3) connection endings at every position class of the client script
		var script []byte
		var bounds []int
		for _, q := range sc.reqs {
			bounds = append(bounds, len(script))
			script = append(script, q.Encode()...)
		}
		cuts := map[int]bool{}
		for bi, b := range bounds {
			end := len(script)
			if bi+1 < len(bounds) {
				end = bounds[bi+1]
			}
			for k := b; k < end; k++ {
				if k-b <= 24 || end-k <= 2 || (k-b)%16384 == 0 {
					cuts[k] = true
				}
			}
		}
		for cut := 0; cut < len(script); cut++ {
			if !cuts[cut] {
				continue
			}
			for _, end := range []string{"fin", "rst", "timeout"} {
				idx++
				if !r.Mine(idx) {
					continue
				}
				p := faultPlan{End: end, Cut: cut}
				res := c13Run(t, w.Root, sc, mk, p, resetW)
				judge(p, res, "end")
			}
		}
		// (4) write failure at every response byte position class
		total := int64(len(base.stream))
		var rb []int64
		acc := int64(0)
		for _, x := range base.raw {
			for k := int64(0); k < int64(len(x)); k++ {
				if k <= 8 || int64(len(x))-k <= 2 || k%32768 == 0 {
					rb = append(rb, acc+k)
				}
			}
			acc += int64(len(x))
		}
		for _, wf := range rb {
			idx++
			if !r.Mine(idx) || wf >= total {
				continue
			}
			p := faultPlan{End: "werr", WFail: wf}
			res := c13Run(t, w.Root, sc, mk, p, resetW)
			if res.why == "" {
				if int64(len(res.stream)) != wf {
					res.why, res.sig = sprintf("writes fail after %d response bytes but the client received %d", wf, len(res.stream)), "werr-length"
				} else if !sc.noF && !bytes.Equal(res.stream, base.stream[:wf]) {
					res.why, res.sig = "bytes received before the write failure differ from the fault-free stream: "+describeDiff(res.stream, base.stream[:wf]), "werr-bytes"
				}
			}
			judge(p, res, "end")
		}
		// (5) reset by a client that receives slowly (bounded send buffer), at every response byte position class
		for _, wf := range rb {
			idx++
			if !r.Mine(idx) || wf >= total || wf == 0 {
				continue
			}
			p := faultPlan{End: "rstw", WFail: wf}
			res := c13Run(t, w.Root, sc, mk, p, resetW)
			if res.why == "" && !sc.noF {
				n := min(len(res.stream), len(base.stream))
				if len(res.stream) > len(base.stream) || !bytes.Equal(res.stream[:n], base.stream[:n]) {
					res.why, res.sig = "bytes received before the reset differ from the fault-free stream: "+describeDiff(res.stream[:n], base.stream[:n]), "rstw-bytes"
				}
			}
			judge(p, res, "end")
			// the same on slow storage: the connection goes away while an open or read is still in progress
			if wf > 4096 {
				ps := faultPlan{End: "rstw", WFail: wf, Slow: 40 * time.Millisecond}
				res := c13Run(t, w.Root, sc, mk, ps, resetW)
				if res.why == "" && !sc.noF {
					n := min(len(res.stream), len(base.stream))
					if len(res.stream) > len(base.stream) || !bytes.Equal(res.stream[:n], base.stream[:n]) {
						res.why, res.sig = "bytes received before the reset differ from the fault-free stream: "+describeDiff(res.stream[:n], base.stream[:n]), "rstw-slow-bytes"
					}
				}
				judge(ps, res, "end")
			}
		}
		// slow storage and a client that takes its bytes slowly (4096 bytes every 10 ms of virtual time), reset after every
		// 4096 bytes of the answers: the connection ends while the server - or whatever it started for this connection -
		// is inside each of its storage operations in turn (an open of the next member file, a read, ...)
		if total > 20000 {
			for k := int64(1); k <= min(total/4096, 48); k++ {
				idx++
				if !r.Mine(idx) {
					continue
				}
				ps := faultPlan{End: "rstw", WFail: k*4096 + 1, Slow: 40 * time.Millisecond, SlowTake: true}
				res := c13Run(t, w.Root, sc, mk, ps, resetW)
				if res.why == "" && !sc.noF {
					n := min(len(res.stream), len(base.stream))
					if len(res.stream) > len(base.stream) || !bytes.Equal(res.stream[:n], base.stream[:n]) {
						res.why, res.sig = "bytes received before the reset differ from the fault-free stream: "+describeDiff(res.stream[:n], base.stream[:n]), "rstw-slow-bytes"
					}
				}
				judge(ps, res, "end")
			}
		}
	}
	// (6) repetition: the same commands many times on one connection, and many short connections that end in
	// different ways on one server - nothing may accumulate (handles, goroutines, per-connection leftovers)
	if r.Mine(idx + 1) {
		var reqs []Req
		for k := 0; k < 300; k++ {
			reqs = append(reqs, mkReq(opOpenFile, "/plain/f65537.bin"), rdReq(uint64(k), 100), mkReq(opOpenDir, "/d"), noargReq(opReadDirEntry), mkReq(opStatFile, "/other.bin"),
				mkReq(opOpenFile, "/***DVD***/game"), rdcReq(uint64(k)*2048, 2048), mkReq(opOpenFile, "/PS3ISO/r.iso"), rdReq(2047, 2))
		}
		sc := c13Scenario{name: "repetition-one-connection", reqs: reqs}
		res := c13Run(t, w.Root, sc, mk, faultPlan{}, resetW)
		r.Transition(int64(len(res.steps)))
		r.Eval(1)
		r.State("repetition-one-connection")
		r.Nontrivial("repetition-one-connection")
		if res.why != "" {
			r.Violation("C13:repetition:"+res.sig, "2700 requests on one connection: "+res.why, map[string]any{"scenario": sc.name, "steps_tail": res.steps[max(0, len(res.steps)-5):]})
		} else {
			r.Outcome("repetition-one-connection-ok")
		}
	}
	if r.Mine(idx + 2) {
		var why string
		leaf := newVFs(afero.NewOsFs(), "leaf")
		synctest.Test(t, func(t *testing.T) {
			s := startSrv(SrvOpts{Root: w.Root, Timeout: c13Timeout, LeafWrap: func(afero.Fs) afero.Fs { return leaf }})
			for k := 0; k < 400 && why == ""; k++ {
				c := s.Dial(nil)
				m := mk()
				script := []Req{mkReq(opOpenFile, "/plain/f2048.bin"), rdReq(uint64(k%2048), 64), mkReq(opOpenDir, "/d"), noargReq(opReadDirEntry)}
				if k%5 == 4 {
					script = []Req{mkReq(opOpenFile, "/***DVD***/game"), rdReq(4096, 100)}
				}
				for i, rq := range script {
					m.Pre(rq)
					resp, closed := s.Exchange(c, rq.Encode())
					if w, _ := m.Check(rq, resp, closed); w != "" {
						why = sprintf("connection %d request %d %s: %s", k, i, rq, w)
						break
					}
				}
				switch k % 4 {
				case 0:
					c.Fin()
				case 1:
					c.Rst()
				case 2:
					c.Send([]byte{0x12, 0x24, 0, 9}) // half a command, then FIN
					c.Fin()
				case 3:
					c.Send(rawReq([]byte{0xff, 0xff, 0, 0, 0, 0, 0, 0, 0, 0, 0, 0, 0, 0, 0, 0}).Encode()) // unknown opcode
				}
				synctest.Wait()
				if !c.ServerClosed() {
					why = sprintf("connection %d (ending kind %d) was not closed by the server", k, k%4)
				}
				if l := leaf.Outstanding(); len(l) > 0 && why == "" {
					why = sprintf("after connection %d ended %d handle(s) stay open: %v", k, len(l), l)
				}
			}
			s.Shutdown()
			select {
			case <-s.done:
			default:
				if why == "" {
					why = "Serve did not return after 400 connections"
				}
			}
		})
		r.Transition(400)
		r.Eval(1)
		r.State("repetition-400-connections")
		r.Nontrivial("repetition-400-connections")
		if why != "" {
			r.Violation("C13:churn", "400 short connections with four kinds of ending: "+why, nil)
		} else {
			r.Outcome("repetition-400-connections-ok")
		}
	}
	r.Assume("faults are injected below BasePathFs on the real OsFs; only answers the interfaces allow are injected (errors with n=0, short Read counts); a failing Close still releases the descriptor")
}
