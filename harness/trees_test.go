package verifh

import (
	"fmt"
	"os"
	"path/filepath"
	"strings"
)

// TreeNode describes one node below the root of an enumerated tree.
type TreeNode struct {
	Parent int   // index of parent node (-1 = root)
	Dir    bool  // directory or file
	Size   int64 // file size
	Name   string
}

type Tree struct {
	Nodes []TreeNode
}

func (t Tree) String() string {
	var b strings.Builder
	for i, n := range t.Nodes {
		if i > 0 {
			b.WriteByte(' ')
		}
		if n.Dir {
			fmt.Fprintf(&b, "%s/", t.Path(i))
		} else {
			fmt.Fprintf(&b, "%s:%d", t.Path(i), n.Size)
		}
	}
	if len(t.Nodes) == 0 {
		return "(empty)"
	}
	return b.String()
}

func (t Tree) Path(i int) string {
	if t.Nodes[i].Parent < 0 {
		return t.Nodes[i].Name
	}
	return t.Path(t.Nodes[i].Parent) + "/" + t.Nodes[i].Name
}

var treeNames = []string{"a", "B.TXT", "c d", "é", "e5"}

// enumTrees enumerates all trees with exactly n nodes below the root: node i's parent is the root or an earlier
// directory node; each node is a directory or a file with a size from sizes. Names are assigned per position
// among siblings. Sibling order is canonical (non-decreasing parent index) to avoid trivially equal duplicates.
func enumTrees(n int, sizes []int64, visit func(Tree)) {
	nodes := make([]TreeNode, n)
	var rec func(i int)
	rec = func(i int) {
		if i == n {
			t := Tree{Nodes: append([]TreeNode{}, nodes...)}
			// assign names by sibling position
			cnt := map[int]int{}
			for k := range t.Nodes {
				p := t.Nodes[k].Parent
				t.Nodes[k].Name = treeNames[cnt[p]%len(treeNames)]
				cnt[p]++
			}
			visit(t)
			return
		}
		minParent := -1
		if i > 0 {
			minParent = nodes[i-1].Parent
		}
		for p := minParent; p < i; p++ {
			if p >= 0 && !nodes[p].Dir {
				continue
			}
			nodes[i].Parent = p
			nodes[i].Dir = true
			nodes[i].Size = 0
			rec(i + 1)
			nodes[i].Dir = false
			for _, s := range sizes {
				nodes[i].Size = s
				rec(i + 1)
			}
		}
	}
	rec(0)
}

// Materialize creates the tree under dir (which must exist and be empty).
func (t Tree) Materialize(dir string) {
	for i, n := range t.Nodes {
		p := filepath.Join(dir, t.Path(i))
		if n.Dir {
			must(os.MkdirAll(p, 0o755))
		} else {
			mkFileAbs(p, n.Size, byte(17*i+3), baseTime.Add(time1(i)))
		}
	}
}
