package verifh

import (
	"errors"
	"fmt"
	"io"
	"os"
	"path/filepath"
	"regexp"
	"sort"
	"strings"

	"github.com/spf13/afero"

	pfs "github.com/xakep666/ps3netsrv-go/pkg/fs"
)

// helpers around the generated-image view (fs.NewVirtualISO)

func openVISO(root, rel string, ps3 bool) (v *pfs.VirtualISO, err error) {
	defer func() {
		if p := recover(); p != nil {
			v, err = nil, fmt.Errorf("PANIC: %v", p)
		}
	}()
	return pfs.NewVirtualISO(afero.NewBasePathFs(afero.NewOsFs(), root), rel, ps3)
}

// canonicalImage reads the whole image with sequential Reads of bufSize (design: one sequential read with a
// sector-multiple buffer). A panic is returned as error.
func canonicalImage(v io.Reader, bufSize int, limit int64) (img []byte, err error) {
	defer func() {
		if p := recover(); p != nil {
			err = fmt.Errorf("PANIC: %v", p)
		}
	}()
	buf := make([]byte, bufSize)
	for {
		n, e := v.Read(buf)
		img = append(img, buf[:n]...)
		if int64(len(img)) > limit {
			return img, fmt.Errorf("sequential read exceeds %d bytes", limit)
		}
		if e != nil {
			if errors.Is(e, io.EOF) {
				return img, nil
			}
			return img, e
		}
		if n == 0 {
			return img, fmt.Errorf("sequential read made no progress at %d", len(img))
		}
	}
}

// isoVarMask zeroes the fields the properties declare variable: volume creation/modification timestamps in the
// PVD/SVD and, in PS3 mode, the random filler of sector 1.
func isoVarMask(ps3 bool) func(off int64, b []byte) {
	type rg struct{ a, b int64 }
	rs := []rg{{16*2048 + 813, 16*2048 + 847}, {17*2048 + 813, 17*2048 + 847}}
	if ps3 {
		rs = append(rs, rg{2048 + 0x40, 2048 + 0x200})
	}
	return func(off int64, b []byte) {
		for _, r := range rs {
			a, e := r.a-off, r.b-off
			if a < 0 {
				a = 0
			}
			if e > int64(len(b)) {
				e = int64(len(b))
			}
			for i := a; i < e; i++ {
				b[i] = 0
			}
		}
	}
}

var portableRx = regexp.MustCompile(`^[A-Za-z0-9._-]+$`)

type srcEntry struct {
	name  string
	isDir bool
	size  int64
	path  string
}

func readSrcDir(dir string) []srcEntry {
	des, err := os.ReadDir(dir)
	must(err)
	var out []srcEntry
	for _, de := range des {
		fi, err := os.Stat(filepath.Join(dir, de.Name()))
		if err != nil {
			continue
		}
		out = append(out, srcEntry{name: de.Name(), isDir: fi.IsDir(), size: fi.Size(), path: filepath.Join(dir, de.Name())})
	}
	sort.Slice(out, func(i, j int) bool { return out[i].name < out[j].name })
	return out
}

// fileContentEqual compares a source file with an image file node (full for small files, windows for big ones).
func fileContentEqual(img isoImage, n *isoNode, path string, size int64) string {
	f, err := os.Open(path)
	must(err)
	defer f.Close()
	cmpWin := func(off int64, cnt int) string {
		if off < 0 {
			off = 0
		}
		if off+int64(cnt) > size {
			cnt = int(size - off)
		}
		if cnt <= 0 {
			return ""
		}
		want := make([]byte, cnt)
		_, err := f.ReadAt(want, off)
		if err != nil && err != io.EOF {
			return "source read: " + err.Error()
		}
		got := n.readAt(img, off, cnt)
		if d := describeDiff(got, want); d != "" {
			return fmt.Sprintf("content at file offset %d: %s", off, d)
		}
		return ""
	}
	if size <= 8<<20 {
		return cmpWin(0, int(size))
	}
	wins := []int64{0, size - 8192}
	pos := int64(0)
	for _, e := range n.Extents {
		pos += int64(e.Len)
		wins = append(wins, pos-8192)
	}
	for _, w := range wins {
		if d := cmpWin(w, 16384); d != "" {
			return d
		}
	}
	return ""
}

// compareHierarchy checks that the image directory node holds exactly the source directory's entries.
func compareHierarchy(img isoImage, node *isoNode, dir string, joliet bool, path string, probs *isoProblems) {
	tag := "primary"
	if joliet {
		tag = "joliet"
	}
	src := readSrcDir(dir)
	used := make([]bool, len(node.Children))
	var pending []srcEntry
	match := func(s srcEntry, ci int) {
		c := node.Children[ci]
		used[ci] = true
		where := fmt.Sprintf("%s %s/%s", tag, path, s.name)
		if c.IsDir != s.isDir {
			probs.add("content-kind", "%s: image says dir=%v, source dir=%v", where, c.IsDir, s.isDir)
			return
		}
		if s.isDir {
			compareHierarchy(img, c, s.path, joliet, path+"/"+s.name, probs)
			return
		}
		if c.Size != s.size {
			probs.add("content-size", "%s: image file has %d bytes (extents %v), source has %d", where, c.Size, c.Extents, s.size)
			return
		}
		if d := fileContentEqual(img, c, s.path, s.size); d != "" {
			probs.add("content-bytes", "%s: %s", where, d)
		}
	}
	// non-portable names (mapped by the generator in an unspecified way): an image entry is the counterpart of a
	// source entry if a trial comparison of the two finds no difference; only if no candidate fits is the first
	// candidate of the right kind and size used (and its differences reported)
	trial := func(s srcEntry, c *isoNode) bool {
		if c.IsDir != s.isDir {
			return false
		}
		var tp isoProblems
		if s.isDir {
			compareHierarchy(img, c, s.path, joliet, path+"/"+s.name, &tp)
		} else {
			if c.Size != s.size {
				return false
			}
			if d := fileContentEqual(img, c, s.path, s.size); d != "" {
				return false
			}
		}
		return len(tp.list) == 0
	}
	for _, s := range src {
		if !portableRx.MatchString(s.name) {
			pending = append(pending, s)
			continue
		}
		want := s.name
		if !joliet {
			want = strings.ToUpper(s.name)
		}
		// several image entries may carry this identifier (a non-portable sibling can be mapped onto it): take the one
		// that matches by content, else the first
		found := -1
		for ci, c := range node.Children {
			if !used[ci] && c.Name == want {
				if found < 0 {
					found = ci
				}
				if trial(s, c) {
					found = ci
					break
				}
			}
		}
		if found < 0 {
			var have []string
			for _, c := range node.Children {
				have = append(have, c.Name)
			}
			probs.add("content-missing", "%s %s: source entry %q (expected identifier %q) not in the image directory (has %q)", tag, path, s.name, want, have)
			continue
		}
		match(s, found)
	}
	for _, s := range pending {
		found := -1
		for ci, c := range node.Children {
			if !used[ci] && trial(s, c) {
				found = ci
				break
			}
		}
		if found < 0 {
			for ci, c := range node.Children {
				if !used[ci] && c.IsDir == s.isDir && (s.isDir || c.Size == s.size) {
					found = ci
					break
				}
			}
		}
		if found < 0 {
			probs.add("content-missing", "%s %s: source entry %q (non-portable name) has no counterpart in the image directory", tag, path, s.name)
			continue
		}
		match(s, found)
	}
	for ci, c := range node.Children {
		if !used[ci] {
			probs.add("content-extra", "%s %s: image entry %q (dir=%v size=%d) has no source counterpart", tag, path, c.Name, c.IsDir, c.Size)
		}
	}
}

// structuralBoundaries returns interesting byte offsets of a generated image (from the reference reader).
func structuralBoundaries(img []byte) []int64 {
	total := int64(len(img))
	b := map[int64]bool{0: true, total: true, 2048: true, 16 * 2048: true, 19 * 2048: true}
	if total >= 19*2048 {
		var p isoProblems
		pvd := parseVolDesc(memImage(img), 16, &p)
		if pvd.Type == 1 {
			h := walkHierarchy(memImage(img), pvd, &p)
			minFile := total
			maxEnd := int64(0)
			var rec func(n *isoNode)
			rec = func(n *isoNode) {
				if n.IsDir {
					b[int64(n.Extents[0].LBA)*2048] = true
				}
				for _, c := range n.Children {
					if c.IsDir {
						rec(c)
						continue
					}
					for _, e := range c.Extents {
						s := int64(e.LBA) * 2048
						b[s] = true
						b[s+int64(e.Len)] = true
						pe := s + (int64(e.Len)+2047)/2048*2048
						b[pe] = true
						if e.Len > 0 && s < minFile {
							minFile = s
						}
						if pe > maxEnd {
							maxEnd = pe
						}
					}
				}
			}
			rec(h.Root)
			b[minFile] = true
			b[maxEnd] = true
		}
	}
	var out []int64
	for x := range b {
		if x >= 0 && x <= total+1 {
			out = append(out, x)
		}
	}
	return uniqSorted(out)
}
