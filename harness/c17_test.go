package verifh

import (
	"encoding/hex"
	"os"
	"path/filepath"
	"testing"
)

// C17: PSX CD sector reads return exactly the 2048 user bytes of each raw sector.

type cdImg struct {
	name   string
	sector int
	sig    string
	size   int64
}

func mkCDImage(root string, im cdImg, seed byte) {
	p := filepath.Join(root, im.name)
	must(os.MkdirAll(filepath.Dir(p), 0o755))
	f, err := os.OpenFile(p, os.O_CREATE|os.O_TRUNC|os.O_WRONLY, 0o644)
	must(err)
	must(f.Truncate(im.size))
	head := int64(24 * 2448)
	if head > im.size {
		head = im.size
	}
	_, err = f.WriteAt(patBytes(seed, 0, int(head)), 0)
	must(err)
	tail := int64(4 * 2448)
	if im.size > head+tail {
		_, err = f.WriteAt(patBytes(seed, im.size-tail, int(tail)), im.size-tail)
		must(err)
	}
	vd := int64(24 + 16*im.sector)
	switch im.sig {
	case "iso":
		if vd+6 <= im.size {
			f.WriteAt([]byte("\x01CD001"), vd)
		}
	case "psx":
		if vd+20 <= im.size {
			f.WriteAt([]byte("PLAYSTATION "), vd+8)
		}
	}
	must(f.Close())
	must(os.Chtimes(p, baseTime, baseTime))
}

func TestC17(t *testing.T) {
	r := NewReporter(t)
	defer r.Done()
	r.Rule("7 raw sector sizes x {ISO9660, PLAYSTATION, no} signature x image sizes around the 2 MiB / 848 MiB detection window x (start,count) incl. count 0, start != count, ranges crossing EOF and start sectors at byte offsets around 2^32 and up to 2^32-1 sectors, incl. a sparse image of 4 GiB + 3 MiB; encrypted images whose plaintext is a CD image (sector size recognised through the decrypting view); every sector of each 2 MiB image one by one in a single session and every (start,count) around its last sectors; all histories of <= 2 (thorough 4) requests over a 10-request alphabet between the open and a sector read; two-image histories on one connection and CLOSEFILE; sector reads of two connections under the controlled scheduler (all schedules with <= 1 / thorough 2 preemptions); transfer buffer sizes {1,3,512,1000,1500,2047,2048,2049,4096,unpooled}; distinct by (image(s), request sequence)")
	w := newWorld(t, "srv/root")
	defer w.Cleanup()
	sizes := []int64{0x200000 - 1, 0x200000, 3 << 20, 0x35000000, 0x35000000 + 1}
	if !r.Thorough() {
		sizes = []int64{0x200000 - 1, 0x200000, 0x35000000, 0x35000000 + 1}
	}
	var imgs []cdImg
	for _, s := range []int{2048, 2328, 2336, 2340, 2352, 2368, 2448} {
		for _, sig := range []string{"iso", "psx", "none"} {
			for _, sz := range sizes {
				if sig == "none" && sz != 0x200000 {
					continue
				}
				imgs = append(imgs, cdImg{name: sprintf("cd_%d_%s_%d.bin", s, sig, sz), sector: s, sig: sig, size: sz})
			}
		}
	}
	gate := newReplayGate(r, "C17", w.Root, w.Dir, false, 5, 1)
	defer gate.Stop()
	gate1000 := newReplayGateArgs(r, "C17", "-buf1000", w.Root, w.Dir, false, 1, 1, "--buffer-size=1000")
	defer gate1000.Stop()
	gate0 := newReplayGateArgs(r, "C17", "-buf0", w.Root, w.Dir, false, 1, 1, "--buffer-size=0")
	defer gate0.Stop()
	run := func(desc string, reqs []Req) {
		m := newModel(w.Root, false)
		res := runSession(t, SrvOpts{Root: w.Root}, m, reqs, Delivery{})
		gate.maybe(newModel(w.Root, false), reqs, res, desc, nil)
		r.Transition(int64(len(res.Steps)))
		r.Eval(1)
		key := desc
		for _, q := range reqs {
			key += "|" + q.String()
		}
		r.State(key)
		r.Nontrivial(key)
		for _, st := range res.Steps {
			r.Outcome(st.Class)
		}
		if res.Why != "" {
			r.Violation("C17:"+res.WhySig, desc+": "+res.Why, map[string]any{"images": desc, "requests": reqs, "steps": res.Steps})
		}
		if len(reqs) == 2 && reqs[1].Start == 5 && reqs[1].Count == 2 {
			r.Sample(map[string]any{"image": desc, "steps": res.Steps})
		}
	}
	for i, im := range imgs {
		if !r.Mine(i) {
			continue
		}
		mkCDImage(w.Root, im, byte(i+1))
		o := fileObj(filepath.Join(w.Root, im.name))
		r.Outcome(sprintf("detected-sector-%d", o.cdSector))
		nsect := uint32((im.size - 24) / int64(o.cdSector))
		// ... and start sectors whose byte offset no longer fits 32 bits (first such sector for this sector size,
		// 2^21, 2^31, the largest value): all far beyond the end of these images
		wrap := uint32((int64(1)<<32 + int64(o.cdSector) - 1) / int64(o.cdSector))
		starts := []uint32{0, 1, 2, 5, 17, nsect - 2, nsect - 1, nsect, nsect + 5, wrap - 1, wrap, wrap + 1, wrap + 17, 1 << 21, 1 << 31, 0xFFFFFFFF}
		for _, st := range starts {
			for _, cnt := range []uint32{0, 1, 2, 3} {
				run(im.name, []Req{mkReq(opOpenFile, "/"+im.name), cdReq(st, cnt)})
			}
		}
		// several reads on one connection, an ordinary read in between (cursor independence)
		run(im.name, []Req{mkReq(opOpenFile, "/"+im.name), cdReq(3, 2), rdcReq(100, 50), cdReq(0, 1), cdReq(17, 3)})
		run(im.name, []Req{mkReq(opOpenFile, "/"+im.name), cdReq(3, 2), rdReq(7, 100), cdReq(5, 2), rdcReq(0, 2048), cdReq(7, 1), cdReq(8, 3), rdReq(24+11*2048, 10), cdReq(11, 1)})
		run(im.name, []Req{mkReq(opOpenFile, "/"+im.name), mkReq(opOpenFile, "/CLOSEFILE"), cdReq(0, 1)})
		// other transfer buffer configurations (--buffer-size): sizes that do and do not divide 2048, larger than a
		// sector, and the unpooled copier
		if im.size == 0x200000 {
			for _, bs := range []int64{1, 3, 512, 1000, 1500, 2047, 2048, 2049, 4096, -1} {
				if !r.Thorough() && im.sig != "iso" && bs != 1000 && bs != -1 {
					continue
				}
				reqs := []Req{mkReq(opOpenFile, "/"+im.name), cdReq(1, 3), rdcReq(100, 50), cdReq(0, 1), cdReq(nsect-1, 2)}
				m := newModel(w.Root, false)
				res := runSession(t, SrvOpts{Root: w.Root, BufSize: bs}, m, reqs, Delivery{})
				switch bs {
				case 1000:
					gate1000.maybe(newModel(w.Root, false), reqs, res, sprintf("%s --buffer-size=1000", im.name), nil)
				case -1:
					gate0.maybe(newModel(w.Root, false), reqs, res, sprintf("%s --buffer-size=0", im.name), nil)
				}
				r.Transition(int64(len(res.Steps)))
				r.Eval(1)
				key := sprintf("%s|bufsize=%d", im.name, bs)
				r.State(key)
				r.Nontrivial(key)
				for _, st := range res.Steps {
					r.Outcome(st.Class)
				}
				if res.Why != "" {
					r.Violation("C17:bufsize:"+res.WhySig, sprintf("%s with transfer buffer size %d: %s", im.name, bs, res.Why), map[string]any{"image": im.name, "buffer_size": bs, "requests": reqs, "steps": res.Steps})
				}
			}
		}
		// every sector of the image one by one in a single session, and every (start, count) around the last sectors
		if im.size == 0x200000 && (im.sig == "iso" || r.Thorough()) {
			reqs := []Req{mkReq(opOpenFile, "/"+im.name)}
			for s := uint32(0); s < nsect; s++ {
				reqs = append(reqs, cdReq(s, 1))
			}
			run(im.name+" every sector", reqs)
			for st := nsect - 6; st <= nsect+1; st++ {
				for cnt := uint32(0); cnt <= 8; cnt++ {
					run(im.name, []Req{mkReq(opOpenFile, "/"+im.name), cdReq(st, cnt), cdReq(0, 1)})
				}
			}
		}
		// all request histories of length <= 2 (thorough: 4) over a 10-request alphabet after the open: the detected
		// sector size is a property of the open file, whatever was asked before
		if im.size == 0x200000 && im.sig == "iso" {
			w.File("other.bin", 5000, 77)
			alpha := []Req{mkReq(opOpenFile, "/"+im.name), mkReq(opOpenFile, "/other.bin"), mkReq(opOpenFile, "/CLOSEFILE"), mkReq(opOpenFile, "/nope"),
				cdReq(0, 1), cdReq(5, 2), cdReq(nsect-1, 1), cdReq(nsect-1, 2), rdReq(7, 100), rdcReq(0, 2048)}
			depth := 2
			if r.Thorough() {
				depth = 4
			}
			var rec func(h []Req)
			rec = func(h []Req) {
				if len(h) > 0 {
					run(im.name+" history", append(append([]Req{mkReq(opOpenFile, "/"+im.name)}, h...), cdReq(3, 2)))
				}
				if len(h) == depth {
					return
				}
				for _, a := range alpha {
					rec(append(append([]Req{}, h...), a))
				}
			}
			rec(nil)
		}
		// re-opening images of a different sector size on one connection
		for j, other := range imgs {
			if other.size != 0x200000 || other.sector == im.sector || im.size != 0x200000 || (!r.Thorough() && (i+j)%3 != 0) {
				continue
			}
			mkCDImage(w.Root, other, byte(j+1))
			run(im.name+"+"+other.name, []Req{mkReq(opOpenFile, "/"+im.name), cdReq(1, 2), mkReq(opOpenFile, "/"+other.name), cdReq(1, 2), mkReq(opOpenFile, "/nope"), cdReq(0, 1)})
			os.Remove(filepath.Join(w.Root, other.name))
		}
		// the image is replaced under the same path by a dump with another raw sector size while the server
		// (and even the connection) lives: the new open must look at the new content
		if im.size == 0x200000 && im.sig != "none" {
			for j, other := range imgs {
				if other.size != 0x200000 || other.sector == im.sector || (!r.Thorough() && (i+j)%5 != 0) {
					continue
				}
				repl := other
				repl.name = im.name
				swap := func() { mkCDImage(w.Root, repl, byte(j+1)) }
				reqs := []Req{mkReq(opOpenFile, "/"+im.name), cdReq(1, 2), mkReq(opOpenFile, "/"+im.name), cdReq(1, 2), cdReq(16, 1), mkReq(opOpenFile, "/CLOSEFILE"), mkReq(opOpenFile, "/"+im.name), cdReq(2, 1)}
				m := newModel(w.Root, false)
				res := runSession(t, SrvOpts{Root: w.Root}, m, reqs, Delivery{Before: map[int]func(){2: swap}})
				r.Transition(int64(len(res.Steps)))
				r.Eval(1)
				key := sprintf("replace %s by sector size %d %s", im.name, other.sector, other.sig)
				r.State(key)
				r.Nontrivial(key)
				for _, st := range res.Steps {
					r.Outcome(st.Class)
				}
				if res.Why != "" {
					r.Violation("C17:replaced-image:"+res.WhySig, key+": "+res.Why, map[string]any{"image": im.name, "replaced_by": other, "requests": reqs, "steps": res.Steps})
				}
				mkCDImage(w.Root, im, byte(i+1))
			}
		}
		os.Remove(filepath.Join(w.Root, im.name))
		if r.TimeUp() {
			break
		}
	}
	// sector reads through a decrypting view: the signature that decides the sector size exists only in the
	// plaintext (sector 16 lies in an encrypted region), so the size must be recognised from what the client sees
	if r.Mine(len(imgs) + 2) {
		for vi, sect := range []int{2048, 2336} {
			nsect := 1100
			plain := patBytes(byte(40+vi), 0, nsect*2048)
			pairs := []uint32{0, 2, uint32(nsect - 2), uint32(nsect - 1)}
			copy(plain, regionTable(pairs))
			copy(plain[24+16*sect+1:], "CD001")
			plain[24+16*sect] = 1
			key := c10Keys[vi]
			name := sprintf("/PS3ISO/cdenc%d.iso", sect)
			writeFileAbs(filepath.Join(w.Root, name), buildEncImage(plain, pairs, key), baseTime)
			writeFileAbs(filepath.Join(w.Root, sprintf("/PS3ISO/cdenc%d.dkey", sect)), []byte(hex.EncodeToString(key)), baseTime)
			view := memObj("redump-cd", refDecryptImage(buildEncImage(plain, pairs, key), pairs, key, false), nil)
			view.cdSector = detectCDSector(view)
			r.Outcome(sprintf("decrypted-view-detected-sector-%d", view.cdSector))
			for _, reqs := range [][]Req{
				{mkReq(opOpenFile, name), cdReq(1, 3), cdReq(16, 1), rdcReq(100, 50), cdReq(0, 1)},
				{mkReq(opOpenFile, name), cdReq(uint32(nsect*2048/sect)-2, 3)},
				{mkReq(opOpenFile, name), rdReq(24+16*uint64(sect), 8), cdReq(15, 2)},
			} {
				m := newModel(w.Root, false)
				m.objFor = func(m *Model, clean string) (*roObj, bool, bool) {
					if clean == name {
						return view, true, true
					}
					return nil, false, false
				}
				res := runSession(t, SrvOpts{Root: w.Root}, m, reqs, Delivery{})
				r.Transition(int64(len(res.Steps)))
				r.Eval(1)
				key := sprintf("decrypting view sector %d|%v", sect, reqStrings(reqs))
				r.State(key)
				r.Nontrivial(key)
				for _, st := range res.Steps {
					r.Outcome(st.Class)
				}
				if res.Why != "" {
					r.Violation("C17:decrypting-view:"+res.WhySig, sprintf("encrypted image whose plaintext is a CD image with %d-byte sectors: %s", sect, res.Why), map[string]any{"image": name, "requests": reqs, "steps": res.Steps})
				}
			}
		}
		os.RemoveAll(filepath.Join(w.Root, "PS3ISO"))
	}
	// a (sparse) image larger than 4 GiB: sectors whose byte offset is around and beyond 2^32 really exist
	if r.Mine(len(imgs) + 1) {
		big := cdImg{name: "cd_big.bin", sector: 2352, sig: "none", size: 1<<32 + 3<<20}
		mkCDImage(w.Root, big, 9)
		f, err := os.OpenFile(filepath.Join(w.Root, big.name), os.O_WRONLY, 0)
		must(err)
		_, err = f.WriteAt(patBytes(9, 1<<32-65536, 131072), 1<<32-65536)
		must(err)
		must(f.Close())
		must(os.Chtimes(filepath.Join(w.Root, big.name), baseTime, baseTime))
		wrap := uint32((int64(1)<<32 + 2352 - 1) / 2352)
		last := uint32((big.size - 24) / 2352)
		for _, st := range []uint32{wrap - 20, wrap - 2, wrap - 1, wrap, wrap + 1, wrap + 20, last - 2, last - 1, last} {
			for _, cnt := range []uint32{1, 3} {
				run(big.name, []Req{mkReq(opOpenFile, "/"+big.name), cdReq(st, cnt), cdReq(1, 1)})
			}
		}
		os.Remove(filepath.Join(w.Root, big.name))
	}
	// sector reads of two connections overlapping in time (images of different raw sector size, multi-sector reads):
	// every schedule with <= 1 (thorough 2) preemptions over connection and leaf filesystem operations - each client
	// gets the stream it gets when alone
	{
		mkCDImage(w.Root, cdImg{name: "two/a2352.bin", sector: 2352, sig: "psx", size: 0x200000}, 21)
		mkCDImage(w.Root, cdImg{name: "two/b2448.bin", sector: 2448, sig: "iso", size: 0x200000}, 22)
		mkCDImage(w.Root, cdImg{name: "two/c2048.bin", sector: 2048, sig: "iso", size: 0x200000}, 23)
		bound := 1
		if r.Thorough() {
			bound = 2
		}
		for _, sc := range []c12Scenario{
			{name: "cd-reads-2352-vs-2448", clients: [][]Req{
				{mkReq(opOpenFile, "/two/a2352.bin"), cdReq(1, 3), cdReq(16, 2)},
				{mkReq(opOpenFile, "/two/b2448.bin"), cdReq(2, 3), cdReq(0, 1)}}},
			{name: "cd-reads-2048-vs-2352-and-ordinary", clients: [][]Req{
				{mkReq(opOpenFile, "/two/c2048.bin"), cdReq(5, 4)},
				{mkReq(opOpenFile, "/two/a2352.bin"), rdcReq(100, 5000), cdReq(7, 2)}}},
		} {
			if !c12Explore(t, r, w.Root, sc, bound, "C17") {
				return
			}
		}
		os.RemoveAll(filepath.Join(w.Root, "two"))
	}
}
