package verifh

import (
	"bytes"
	"os"
	"path/filepath"
	"strings"
	"syscall"
	"testing"
	"time"
)

// C03: request/response framing and the per-connection state machine.
// All request sequences up to a depth over a representative alphabet, every response compared with the model.

type c03World struct {
	w *World
}

func buildC03World(t testing.TB) *c03World {
	w := newWorld(t, "srv/root")
	w.File("f.bin", 5000, 1)
	w.MkDir("empty")
	w.File("d2/a.txt", 10, 2)
	w.File("d2/b.bin", 3000, 3)
	// names whose byte length and "character" length differ, or that are not valid UTF-8 at all (legacy code pages):
	// announced name length and bytes sent must agree for these too
	w.File("d3/\xc8\xe3\xf0\xe0.iso", 11, 4)
	w.File("d3/a\xff\xfeb", 12, 4)
	w.File("d3/\u0436\u0436.iso", 13, 4)
	w.File("d3/"+strings.Repeat("\xe9", 255), 14, 4)
	w.MkDir("d3/\xfe\xfe\xfe")
	w.File("d1/x", 9, 5) // the shortest possible name: a one-byte name field
	cw := &c03World{w: w}
	cw.resetW()
	return cw
}

// resetW restores the writable subtree to its initial content.
func (cw *c03World) resetW() {
	p := filepath.Join(cw.w.Root, "w")
	os.RemoveAll(p)
	cw.w.MkDir("w")
	cw.w.File("w/old.txt", 7, 9)
	cw.w.FixDirTimes()
}

func c03Alphabet() []Req {
	big := patBytes(5, 0, 70000)
	return []Req{
		mkReq(opOpenDir, "/d2"), mkReq(opOpenDir, "/nope"), mkReq(opOpenDir, "/empty"), mkReq(opOpenDir, "/f.bin"), mkReq(opOpenDir, "/d3"), mkReq(opOpenDir, "/d1"),
		noargReq(opReadDirEntry), noargReq(opReadDirEntryV2), noargReq(opReadDir),
		mkReq(opStatFile, "/f.bin"), mkReq(opStatFile, "/nope"), mkReq(opStatFile, "/d2"),
		mkReq(opOpenFile, "/f.bin"), mkReq(opOpenFile, "/nope"), mkReq(opOpenFile, "/d2/b.bin"), mkReq(opOpenFile, "/CLOSEFILE"), mkReq(opOpenFile, "/d2"), mkReq(opOpenFile, "/***DVD***/d2"),
		rdReq(0, 100), rdReq(100, 50), rdReq(4990, 100), rdReq(6000, 10), rdReq(17, 0), rdReq(1<<63, 10),
		rdcReq(10, 20), rdcReq(4990, 100), cdReq(0, 1), cdReq(1826092, 1),
		mkReq(opCreateFile, "/w/new.bin"), mkReq(opCreateFile, "/w/old.txt"), mkReq(opCreateFile, "/nodir/x"),
		wrReq([]byte{1, 2, 3}), wrReq(nil), wrReq(big),
		mkReq(opDeleteFile, "/w/old.txt"), mkReq(opMkdir, "/w/sub"), mkReq(opRmdir, "/w/sub"),
		mkReq(opGetDirSize, "/d2"), mkReq(opGetDirSize, "/"),
		{Op: 0x1223}, {Op: 0x1233},
	}
}

func isMutating(r Req) bool {
	switch r.Op {
	case opCreateFile, opWriteFile, opDeleteFile, opMkdir, opRmdir:
		return r.Raw == nil
	}
	return false
}

func TestC03(t *testing.T) {
	r := NewReporter(t)
	defer r.Done()
	cw := buildC03World(t)
	defer cw.w.Cleanup()
	alpha := c03Alphabet()
	depth := 3
	if r.Thorough() {
		depth = 4
	}
	r.Rule("all request sequences of length <= depth over a 41-request alphabet (incl. a directory and a generated image opened as a file) covering the 15 opcodes in success and failure form plus unknown opcodes, x writing enabled/disabled; every truncation point of every request as last request after every 1-request prefix, ended by the client's FIN or by silence until the read timeout; whole/1-byte/7-byte delivery; the same sequences pipelined in one piece (stream = concatenation of the one-by-one answers); listings of directories of 4095 / 4096 / 4097 / 5000 (thorough: 65537) entries followed by further requests; an upload whose storing fails (ENOSPC, EIO, partial write) at every write of a 70000-byte payload with three transfer buffer configurations; a case is distinct by (allow-write, executed request prefix, delivery)")
	r.Extra("depth", depth)
	r.Extra("alphabet", len(alpha))

	executed := map[string]bool{}
	caseIdx := 0
	// conformance replay against the real binary: one server per write mode on the same tree
	var rep [2]*binReplayer
	if binPath() != "" {
		for i, allow := range []bool{false, true} {
			br, err := startReplayer(cw.w.Root, cw.w.Dir, binLogDir("C03"), allow)
			if err != nil {
				r.HarnessError("cannot start the real binary for conformance replay: " + err.Error())
				return
			}
			rep[i] = br
			defer br.Stop()
			defer os.RemoveAll(binLogDir("C03"))
		}
	}
	slice := 23
	if r.Thorough() {
		slice = 3
	}
	nrun := 0
	runOne := func(allow bool, seq []Req, d Delivery) {
		mut := false
		for _, q := range seq {
			if isMutating(q) {
				mut = true
			}
		}
		if allow && mut {
			cw.resetW()
		}
		m := newModel(cw.w.Root, allow)
		res := runSession(t, SrvOpts{Root: cw.w.Root, AllowWrite: allow, Timeout: d.StallT}, m, seq, d)
		r.Transition(int64(len(res.Steps)))
		r.Eval(1)
		var key strings.Builder
		key.WriteString(sprintf("%v|%d|%d|%v", allow, d.Chunk, d.MaxRead, d.StallT))
		for _, st := range res.Steps {
			key.WriteString("|" + st.Req)
			r.Outcome(st.Class)
		}
		if executed[key.String()] {
			return
		}
		executed[key.String()] = true
		r.State(key.String())
		r.Nontrivial(key.String())
		if len(res.Steps) == depth && caseIdx%5000 == 0 {
			r.Sample(map[string]any{"allow_write": allow, "steps": res.Steps})
		}
		if res.Why != "" {
			r.Violation("C03:"+res.WhySig, res.Why, map[string]any{"allow_write": allow, "requests": seq, "delivery": d, "steps": res.Steps})
			return
		}
		nrun++
		// the same requests pipelined (one piece, then FIN): the stream must be the concatenation of the answers above
		if d.plain() && len(seq) >= 2 && (len(seq) == 2 || (r.Thorough() && len(seq) == 3) || nrun%3 == 0) {
			if allow && mut {
				cw.resetW()
			}
			want := bytes.Join(res.Raw, nil)
			for _, mr := range []int{0, 5} {
				if mr != 0 && nrun%4 != 0 {
					continue
				}
				got, pclosed := runPipelined(t, SrvOpts{Root: cw.w.Root, AllowWrite: allow}, seq, mr)
				r.Transition(int64(len(seq)))
				r.ExtraAdd("pipelined_sessions", 1)
				if len(got) == len(want) {
					// access and inode-change times legitimately move between two runs (the harness re-creates and re-stamps the
					// writable subtree in between): blank them in stat and V2 entry answers
					got = append([]byte{}, got...)
					want = append([]byte{}, want...)
					pos := 0
					for i, raw := range res.Raw {
						if (seq[i].Op == opStatFile && len(raw) == szStat) || (seq[i].Op == opReadDirEntryV2 && len(raw) >= szDirEntryV2) {
							for k := pos + 16; k < pos+32; k++ {
								got[k], want[k] = 0, 0
							}
						}
						pos += len(raw)
					}
				}
				if !bytes.Equal(got, want) || !pclosed {
					r.Outcome("pipelined-differs")
					r.Violation("C03:pipelined-differs", sprintf("requests %v sent back-to-back in one piece (socket reads capped at %d): the response stream differs from the one-by-one answers (closed=%v): %s", reqStrings(seq), mr, pclosed, describeDiff(got, want)), map[string]any{"allow_write": allow, "requests": seq, "max_read": mr})
					break
				}
				if allow && mut {
					cw.resetW()
				}
			}
		}
		bi := 0
		if allow {
			bi = 1
		}
		if rep[bi] != nil && d.plain() && (nrun+int(r.Seed))%slice == 0 {
			if allow && mut {
				cw.resetW()
			}
			why, sig := rep[bi].replay(newModel(cw.w.Root, allow), seq, lensOf(res.Raw), res.Closed)
			r.Trace(1)
			if why != "" {
				r.Violation("C03:"+sig, "conformance replay on the real binary: "+why, map[string]any{"allow_write": allow, "requests": seq})
			}
		}
	}

	// (1) all sequences up to depth, whole delivery
	n := len(alpha)
	total := 1
	for i := 0; i < depth; i++ {
		total *= n
	}
	for idx := 0; idx < total; idx++ {
		caseIdx = idx
		if !r.Mine(idx) {
			continue
		}
		if idx%2048 == 0 && r.TimeUp() {
			break
		}
		seq := make([]Req, depth)
		x := idx
		for k := depth - 1; k >= 0; k-- {
			seq[k] = alpha[x%n]
			x /= n
		}
		for _, allow := range []bool{false, true} {
			runOne(allow, seq, Delivery{})
		}
	}
	// (2) truncations: every truncation point of every request, after every 1-request prefix (and none)
	tcase := 0
	for _, last := range alpha {
		enc := last.Encode()
		var cuts []int
		for c := 1; c < len(enc); c++ {
			if c <= 20 || c >= len(enc)-2 || c%9973 == 0 {
				cuts = append(cuts, c)
			}
		}
		for _, cut := range cuts {
			for pi := -1; pi < len(alpha); pi++ {
				tcase++
				if !r.Mine(tcase) {
					continue
				}
				var seq []Req
				if pi >= 0 {
					seq = append(seq, alpha[pi])
				}
				seq = append(seq, truncReq(last, cut))
				runOne(true, seq, Delivery{})
				// the same cut followed by silence instead of FIN (the read timeout has to end it), in both modes
				if cut <= 17 || cut >= len(enc)-2 || cut%9973 == 0 {
					runOne(true, seq, Delivery{StallT: 30 * time.Second})
					runOne(false, seq, Delivery{StallT: 30 * time.Second})
				}
			}
		}
	}
	// (2') a WriteFile announcing more than 2^31 bytes of which only a few arrive before the client's FIN
	for _, announced := range []uint32{1<<31 - 1, 1 << 31, 1<<32 - 1} {
		for _, pre := range [][]Req{nil, {mkReq(opCreateFile, "/w/new.bin")}} {
			tcase++
			if !r.Mine(tcase) {
				continue
			}
			raw := make([]byte, 16)
			raw[0], raw[1] = byte(opWriteFile>>8), byte(opWriteFile&0xff)
			raw[4], raw[5], raw[6], raw[7] = byte(announced>>24), byte(announced>>16), byte(announced>>8), byte(announced)
			raw = append(raw, []byte("hello")...)
			seq := append(append([]Req{}, pre...), Req{Op: opWriteFile, Raw: raw, Trunc: len(raw)})
			runOne(true, seq, Delivery{})
			runOne(false, seq, Delivery{})
		}
	}
	// (3) delivery variants: depth-2 sequences with 1-byte and 7-byte delivery and 1-byte socket reads
	for i := 0; i < n*n; i++ {
		if !r.Mine(i) {
			continue
		}
		seq := []Req{alpha[i/n], alpha[i%n]}
		for _, d := range []Delivery{{Chunk: 1}, {Chunk: 7}, {MaxRead: 1}} {
			if d.Chunk == 1 && len(seq[0].Encode())+len(seq[1].Encode()) > 4000 {
				continue
			}
			runOne(true, seq, d)
		}
	}
	// (5) an upload whose storing fails half-way (disk full, I/O error, partial write) at every write of the
	// payload: the server must still consume exactly the announced payload, answer the failure code (or end the
	// connection) and stay in step for the following requests
	storeFailureFamily(t, r, cw.w.Root, cw.resetW, "C03")
	// (6) listings of very large directories (around 4096 entries - the console's own limit - and beyond 16 bits):
	// the announced count and the bytes that follow agree, and the connection stays in step afterwards
	for i, n := range []int{4095, 4096, 4097, 5000, 65537} {
		if r.Shard != (i*3+1)%r.NShards || (n > 5000 && !r.Thorough()) {
			continue
		}
		bw := newWorld(t, "root")
		for k := 0; k < n; k++ {
			if k%97 == 5 {
				must(os.Mkdir(filepath.Join(bw.Root, sprintf("big/d%05d", k)), 0o755))
			} else if k == 0 {
				bw.File("big/f00000.bin", 3, 1)
			} else {
				must(os.WriteFile(filepath.Join(bw.Root, sprintf("big/f%05d.bin", k)), []byte{byte(k)}, 0o644))
			}
		}
		bw.File("after.bin", 77, 2)
		for _, seq := range [][]Req{
			{mkReq(opOpenDir, "/big"), noargReq(opReadDir), mkReq(opStatFile, "/after.bin"), noargReq(opReadDir), mkReq(opOpenFile, "/after.bin"), rdReq(0, 77)},
			{mkReq(opOpenDir, "/big"), noargReq(opReadDirEntry), noargReq(opReadDir), noargReq(opReadDirEntryV2), mkReq(opGetDirSize, "/big"), mkReq(opStatFile, "/big")},
		} {
			m := newModel(bw.Root, false)
			res := runSession(t, SrvOpts{Root: bw.Root}, m, seq, Delivery{})
			r.Transition(int64(len(res.Steps)))
			r.Eval(1)
			key := sprintf("bigdir|%d|%s", n, strings.Join(reqStrings(seq), ","))
			r.State(key)
			r.Nontrivial(key)
			for _, st := range res.Steps {
				r.Outcome("bigdir:" + st.Class)
			}
			if res.Why != "" {
				r.Violation("C03:bigdir:"+res.WhySig, sprintf("directory of %d entries: %s", n, res.Why), map[string]any{"entries": n, "requests": seq})
			}
		}
		bw.Cleanup()
	}
	// (4) deep explicit-state search: histories are merged by the reference model's abstract state
	// (open directory + remaining entries, open read file, open write file, digest of the writable subtree);
	// a successor is produced by replaying the shortest history on a fresh server plus one request.
	deep := 5
	if r.Thorough() {
		deep = 7
	}
	r.Extra("deep_depth", sprintf("%d", deep))
	for _, allow := range []bool{false, true} {
		seen := map[string]bool{}
		// a history is kept as indexes into the alphabet (one byte per request): frontiers hold hundreds of thousands
		type node struct{ hist []uint8 }
		expand := func(h []uint8) []Req {
			out := make([]Req, len(h))
			for i, x := range h {
				out[i] = alpha[x]
			}
			return out
		}
		var frontier []node
		for i, a := range alpha {
			if i%r.NShards == r.Shard {
				_ = a
				frontier = append(frontier, node{[]uint8{uint8(i)}})
			}
		}
		for d := 1; d <= deep && len(frontier) > 0; d++ {
			var next []node
			for _, ndi := range frontier {
				if r.TimeUp() {
					break
				}
				nd := struct{ hist []Req }{expand(ndi.hist)}
				mut := false
				for _, q := range nd.hist {
					if isMutating(q) {
						mut = true
					}
				}
				if allow && mut {
					cw.resetW()
				}
				m := newModel(cw.w.Root, allow)
				res := runSession(t, SrvOpts{Root: cw.w.Root, AllowWrite: allow}, m, nd.hist, Delivery{})
				r.Transition(int64(len(res.Steps)))
				r.ExtraAdd("deep_executions", 1)
				if res.Why != "" {
					r.Violation("C03:deep:"+res.WhySig, res.Why, map[string]any{"allow_write": allow, "requests": nd.hist, "steps": res.Steps})
					continue
				}
				if len(res.Steps) < len(nd.hist) || (len(res.Closed) > 0 && res.Closed[len(res.Closed)-1]) {
					continue // connection ended: no successors
				}
				key := sprintf("%v|%s|%s", allow, m.AbstractKey(), sprint(snapshotTree(filepath.Join(cw.w.Root, "w"), "")))
				if seen[key] {
					continue
				}
				seen[key] = true
				r.ExtraAdd("deep_states", 1)
				if d < deep {
					for ai := range alpha {
						next = append(next, node{append(append([]uint8{}, ndi.hist...), uint8(ai))})
					}
				}
			}
			frontier = next
		}
	}
	r.Assume("vnet models TCP as two reliable byte queues; real-TCP conformance is checked by replaying sessions against the real binary (C03 bin replay)")
}

// storeFailureFamily: CreateFile + a 70000-byte WriteFile whose storing fails (ENOSPC, EIO, partial write) at every
// Write of the payload, with three transfer buffer configurations, followed by more requests. The world needs
// /w (writable, reset by resetW), /f.bin and /d2.
func storeFailureFamily(t *testing.T, r *Reporter, root string, resetW func(), prop string) {
	big := patBytes(5, 0, 70000)
	probe := []Req{mkReq(opOpenFile, "/f.bin"), rdReq(3, 2000), rdcReq(0, 2048)}
	mkM := func() *Model { return newModel(root, true) }
	fcase := 0
	for _, bs := range []int{0, 1000, -1} {
		sc := c13Scenario{name: sprintf("store-failure(buffer %d)", bs), allow: true, buf: bs, probe: probe, reqs: []Req{
			mkReq(opCreateFile, "/w/new.bin"), wrReq(big), mkReq(opStatFile, "/f.bin"), wrReq([]byte("abc")), mkReq(opStatFile, "/nope"),
			mkReq(opOpenDir, "/d2"), noargReq(opReadDirEntry), mkReq(opDeleteFile, "/w/new.bin"), mkReq(opStatFile, "/d2")}}
		base := c13Run(t, root, sc, mkM, faultPlan{}, resetW)
		r.Transition(int64(len(base.steps)))
		if base.why != "" {
			if r.Shard == 0 {
				r.Violation(prop+":store-failure:fault-free:"+base.sig, sc.name+" without any fault: "+base.why, map[string]any{"requests": sc.reqs, "steps": base.steps})
			}
			continue
		}
		nw := 0
		for i, ev := range base.events {
			if ev.Op != "Write" && ev.Op != "WriteAt" && ev.Op != "WriteString" {
				continue
			}
			nw++
			if bs == 1000 && nw > 6 && nw%7 != 0 && !r.Thorough() {
				continue // 70 writes of 1000 bytes: the first six and every seventh
			}
			for _, f := range []FsFault{{Err: syscall.ENOSPC}, {Err: syscall.EIO}, {Err: syscall.ENOSPC, Short: 1}, {Err: syscall.ENOSPC, Short: (ev.N + 1) / 2}} {
				if f.Short >= ev.N && f.Short > 0 {
					continue
				}
				fcase++
				if !r.Mine(fcase) {
					continue
				}
				p := faultPlan{At: map[int]FsFault{i: f}, Desc: []string{sprintf("%v(short=%d)@%d:%s", f.Err, f.Short, i, ev.Op)}}
				res := c13Run(t, root, sc, mkM, p, resetW)
				r.Transition(int64(len(res.steps)) + 1)
				r.Eval(1)
				key := sprintf("%s|%v", sc.name, p.Desc)
				r.State(key)
				r.Nontrivial(key)
				for _, st := range res.steps {
					r.Outcome("store-failure:" + st.Class)
				}
				if res.why != "" {
					r.Violation(prop+":store-failure:"+res.sig, sprintf("%s, %v: %s", sc.name, p.Desc, res.why), map[string]any{"requests": sc.reqs, "plan": p, "steps": res.steps})
				}
			}
		}
	}
	resetW()
}
