package verifh

import (
	"bytes"
	"fmt"
	"io"
	"os"
	"path/filepath"
	"sort"
	"syscall"
	"testing"

	"github.com/spf13/afero"
	pfs "github.com/xakep666/ps3netsrv-go/pkg/fs"
)

// C09: a generated image behaves as one fixed byte string under any Read/Seek/ReadAt sequence.

func c09Sizes() []int64 { return []int64{0, 1, 2047, 2048, 2049} }

func TestC09(t *testing.T) {
	r := NewReporter(t)
	defer r.Done()
	r.Rule("every tree with <= N nodes (file sizes 0,1,2047,2048,2049), both modes for a subset, plus the directory-shape families of C07 (entries per directory, exact sector fit, depth, many directories, symbolic links) with a reduced offset set: canonical image = one sequential read; then all single ops and op sequences of depth <= 3 (Seek.Read.Read, Read.ReadAt.Read, relative/end seeks, refused seeks followed by reads, one long-lived handle: whole pass, revisits, second pass; all triples of sequential read sizes from {100, 4096, 65536, 65537, 131072}; pairs of member files read in alternating pieces; whole passes and boundary reads over a filesystem whose files report EOF together with their last bytes; the same with the n-th Open/Close/Seek/Read/ReadAt on a member failing) over offsets = structural boundaries (metadata end, each file start/end/padded end, pad-area start, size) +-1 and lengths {1,2,2047,2048,2049,65536,65537, to-next-boundary +-1}; oracle = bytes.Reader semantics over the canonical image; distinct by (tree, mode, op sequence)")
	base := filepath.Join(scratchBase(), sprintf("verifh-c09-%d", os.Getpid()))
	root := filepath.Join(base, "root")
	defer os.RemoveAll(base)
	maxNodes := 3
	if r.Thorough() {
		maxNodes = 4
	}
	idx := 0
	for n := 0; n <= maxNodes; n++ {
		enumTrees(n, c09Sizes(), func(tr Tree) {
			idx++
			if !r.Mine(idx) || r.TimeUp() {
				return
			}
			modes := []bool{false}
			if idx%4 == 0 {
				modes = []bool{false, true}
			}
			for _, ps3 := range modes {
				c09Tree(r, root, tr, ps3, n >= 4)
			}
		})
	}
	// directory-shape families (entries per directory 1..N, records ending exactly on a sector boundary, deep
	// chains, many directories, prefix-related names, symbolic links): sizes of the metadata area are predicted
	// in one place and written in another - every byte of the announced size must be readable
	isoFamilyCases(r.Thorough(), false, func(c isoCase) {
		if c.huge || c.family == "collide" {
			return // colliding names are legitimately refused at creation: nothing to read
		}
		if !r.Thorough() {
			var n, l int
			if k, _ := fmt.Sscanf(c.desc, "entries-per-dir=%d", &n); k == 1 && n > 70 && n%10 != 0 {
				return
			}
			if k, _ := fmt.Sscanf(c.desc, "exact-fit name-length=%d entries=%d", &l, &n); k == 2 && l > 24 && l%8 != 0 {
				return
			}
		}
		idx++
		if !r.Mine(idx) || r.TimeUp() {
			return
		}
		c09Case(r, root, c.desc, c.desc, c.build, c.ps3, true, true, false)
	})
}

func c09Tree(r *Reporter, root string, tr Tree, ps3 bool, light bool) {
	c09Case(r, root, sprintf("tree[%s] ps3=%v", tr.String(), ps3), tr.Nodes, tr.Materialize, ps3, light, false, len(tr.Nodes) == 2 && !ps3)
}

// c09Case: minimal = family cases with many entries: only the boundaries next to the metadata end, the first
// files and the image end are probed (every probe re-opens the view).
func c09Case(r *Reporter, root, desc string, treeRep any, build func(dir string), ps3, light, minimal, sample bool) {
	os.RemoveAll(root)
	dir := filepath.Join(root, "T")
	must(os.MkdirAll(dir, 0o755))
	build(dir)
	if ps3 {
		writeFileAbs(filepath.Join(dir, "PS3_GAME", "PARAM.SFO"), mkSFO([]sfoKV{{"TITLE_ID", "BLES01234"}}), baseTime)
	}
	r.State(desc)
	rep := func(ops []ioOp) map[string]any {
		return map[string]any{"tree": treeRep, "case": desc, "ps3": ps3, "ops": ops}
	}
	v, err := openVISO(root, "/T", ps3)
	r.Transition(1)
	if err != nil {
		r.Outcome("create-failed")
		r.Violation("C09:create-failed", desc+": image creation failed: "+err.Error(), rep(nil))
		return
	}
	st, _ := v.Stat()
	announced := st.Size()
	img, err := canonicalImage(v, 1<<20, announced+4<<20)
	v.Close()
	if err != nil {
		r.Outcome("canonical-failed")
		r.Violation("C09:sequential-read-error", sprintf("%s: sequential read failed after %d bytes (announced size %d): %v", desc, len(img), announced, err), rep(nil))
		if int64(len(img)) < announced {
			return
		}
	}
	if int64(len(img)) != announced {
		r.Outcome("canonical-size-mismatch")
		r.Violation("C09:sequential-read-size", sprintf("%s: sequential read returned %d bytes, announced size is %d", desc, len(img), announced), rep(nil))
		if int64(len(img)) > announced {
			img = img[:announced]
		} else {
			return
		}
	}
	r.Nontrivial(desc)
	mask := isoVarMask(ps3) // a fresh view has fresh timestamps / random filler
	bounds := structuralBoundaries(img)
	if minimal && len(bounds) > 8 {
		// boundaries are sorted: keep the first three behind the volume descriptors (directory area, end of the
		// metadata = start of the first file) and the last three (last file end, pad area, size)
		var keep []int64
		for i, b := range bounds {
			if i >= len(bounds)-3 || (b > 20*2048 && len(keep) < 3) {
				keep = append(keep, b)
			}
		}
		bounds = uniqSorted(keep)
	}
	var offs []int64
	for _, b := range bounds {
		for _, d := range []int64{-1, 0, 1} {
			if o := b + d; o >= 0 {
				offs = append(offs, o)
			}
		}
	}
	offs = uniqSorted(append(offs, announced+5000))
	lens := func(off int64) []int {
		ls := []int{1, 2, 2047, 2048, 2049, 65536, 65537, 1 << 20}
		if light {
			ls = []int{1, 2048, 2049, 65537, 1 << 20}
		}
		for _, b := range bounds {
			if b > off && b-off < 300000 {
				for _, d := range []int64{-1, 0, 1} {
					if n := b - off + d; n > 0 {
						ls = append(ls, int(n))
					}
				}
				if len(ls) > 16 {
					break
				}
			}
		}
		return ls
	}
	eager := false // the member files report io.EOF together with their last bytes
	run := func(ops []ioOp) bool {
		view, err := openVISO(root, "/T", ps3)
		if eager {
			leaf := newVFs(afero.NewOsFs(), "leaf")
			leaf.record = false
			leaf.EagerEOF = true
			view, err = func() (v *pfs.VirtualISO, err error) {
				defer func() {
					if p := recover(); p != nil {
						v, err = nil, fmt.Errorf("PANIC: %v", p)
					}
				}()
				return pfs.NewVirtualISO(afero.NewBasePathFs(leaf, root), "/T", ps3)
			}()
		}
		if err != nil {
			r.Violation("C09:reopen-failed", desc+": "+err.Error(), rep(ops))
			return false
		}
		defer view.Close()
		s := &ioState{}
		for i, op := range ops {
			why, class := applyOp(view, img, s, op, mask)
			r.Transition(1)
			r.Outcome(class)
			if why != "" {
				r.Violation("C09:"+class+":"+op.Kind, sprintf("%s ops=%v step %d: %s", desc, ops, i, why), rep(ops))
				return false
			}
		}
		r.Eval(1)
		return true
	}
	bad := 0
	for _, off := range offs {
		for _, n := range lens(off) {
			if !run([]ioOp{{Kind: "readat", N: n, Off: off}}) {
				bad++
			}
			if !run([]ioOp{{Kind: "seek", Off: off, Whence: io.SeekStart}, {Kind: "read", N: n}, {Kind: "read", N: 2049}}) {
				bad++
			}
			if bad > 12 {
				return
			}
		}
		if !light {
			for _, n1 := range []int{1, 2047, 2049, 65537} {
				for _, n2 := range []int{1, 2048, 65536} {
					run([]ioOp{{Kind: "seek", Off: off, Whence: io.SeekStart}, {Kind: "read", N: n1}, {Kind: "readat", N: 100, Off: 0}, {Kind: "read", N: n2}})
				}
			}
		}
		run([]ioOp{{Kind: "seek", Off: off - announced, Whence: io.SeekEnd}, {Kind: "read", N: 2049}})
		run([]ioOp{{Kind: "read", N: 3}, {Kind: "seek", Off: off - 3, Whence: io.SeekCurrent}, {Kind: "read", N: 2048}, {Kind: "seek", Off: -2048, Whence: io.SeekCurrent}, {Kind: "read", N: 2048}})
	}
	run([]ioOp{{Kind: "seek", Off: 0, Whence: io.SeekEnd}, {Kind: "read", N: 10}})
	run([]ioOp{{Kind: "seek", Off: -1, Whence: io.SeekEnd}, {Kind: "read", N: 10}, {Kind: "read", N: 10}})
	run([]ioOp{{Kind: "seek", Off: -1, Whence: io.SeekStart}})
	// a refused seek leaves the cursor where it was: reads, relative seeks and positional reads afterwards
	for _, off := range offs {
		if off > announced {
			continue
		}
		run([]ioOp{{Kind: "seek", Off: off, Whence: io.SeekStart}, {Kind: "seek", Off: -1, Whence: io.SeekStart}, {Kind: "read", N: 2049}})
		run([]ioOp{{Kind: "seek", Off: off, Whence: io.SeekStart}, {Kind: "seek", Off: -off - 7, Whence: io.SeekCurrent}, {Kind: "seek", Off: 0, Whence: io.SeekCurrent}, {Kind: "read", N: 100}})
		run([]ioOp{{Kind: "seek", Off: off, Whence: io.SeekStart}, {Kind: "seek", Off: -announced - 1, Whence: io.SeekEnd}, {Kind: "readat", N: 10, Off: 3}, {Kind: "read", N: 2048}})
	}
	run([]ioOp{{Kind: "seek", Off: 10, Whence: io.SeekEnd}, {Kind: "read", N: 10}})
	// whole image with different buffer sizes
	for _, bs := range []int{512, 2048, 3000, 65536, 65537} {
		var ops []ioOp
		for i := int64(0); i <= announced/int64(bs)+1; i++ {
			ops = append(ops, ioOp{Kind: "read", N: bs})
		}
		run(ops)
	}
	// sequential reads of mixed sizes on one handle (below, at and above typical transfer and read-ahead buffer
	// sizes, in every order of three): whatever is buffered in front of the cursor must follow it
	if !light {
		ms := []int{100, 4096, 65536, 65537, 131072}
		for _, a := range ms {
			for _, b := range ms {
				for _, c := range ms {
					if !run([]ioOp{{Kind: "read", N: a}, {Kind: "read", N: b}, {Kind: "read", N: c}, {Kind: "read", N: a}, {Kind: "seek", Off: 0, Whence: io.SeekCurrent}, {Kind: "read", N: 100}}) {
						bad++
					}
					if bad > 12 {
						return
					}
				}
			}
		}
	}
	// one handle used for a long time: a whole sequential pass, then back to every kept boundary (positional and by
	// seeking), then a second whole pass - whatever the view caches per file must survive being revisited
	{
		var ops []ioOp
		for i := int64(0); i <= announced/65536+1; i++ {
			ops = append(ops, ioOp{Kind: "read", N: 65536})
		}
		for _, b := range bounds {
			if b < announced {
				ops = append(ops, ioOp{Kind: "readat", N: 2049, Off: b}, ioOp{Kind: "seek", Off: b, Whence: io.SeekStart}, ioOp{Kind: "read", N: 100})
			}
		}
		ops = append(ops, ioOp{Kind: "seek", Off: 0, Whence: io.SeekStart})
		for i := int64(0); i <= announced/30000+1; i++ {
			ops = append(ops, ioOp{Kind: "read", N: 30000})
		}
		run(ops)
	}
	// the same image over a filesystem whose files report io.EOF together with their last bytes (a legal io.Reader /
	// io.ReaderAt; only os files wait for the next call): whole passes and reads ending exactly at, one before and one
	// behind every structural boundary
	eager = true
	for _, bs := range []int{2048, 65536, 1 << 20} {
		var ops []ioOp
		for i := int64(0); i <= announced/int64(bs)+1; i++ {
			ops = append(ops, ioOp{Kind: "read", N: bs})
		}
		run(ops)
	}
	for _, b := range bounds {
		for _, d := range []int64{-1, 0, 1} {
			for _, n := range []int{1, 2, 2048, 2049} {
				if off := b + d - int64(n); off >= 0 && off < announced {
					run([]ioOp{{Kind: "readat", N: n, Off: off}, {Kind: "seek", Off: off, Whence: io.SeekStart}, {Kind: "read", N: n}, {Kind: "read", N: 3000}})
				}
			}
		}
	}
	eager = false
	// several member files read in alternating pieces through one handle (what a console does when it loads two
	// files side by side): whatever the view remembers about one member survives reads of another
	exts := fileExtentsOf(img)
	if len(exts) > 4 {
		exts = exts[:4]
	}
	for ai, a := range exts {
		for bi, b := range exts {
			if ai == bi {
				continue
			}
			for _, x := range uniqSorted([]int64{1, a[1] / 2, a[1] - 1}) {
				if x <= 0 || x >= a[1] {
					continue
				}
				nb := int(min(b[1], 7))
				run([]ioOp{{Kind: "readat", N: int(x), Off: a[0]}, {Kind: "readat", N: nb, Off: b[0]}, {Kind: "readat", N: int(a[1] - x), Off: a[0] + x}, {Kind: "readat", N: int(b[1]) - nb + 1, Off: b[0] + int64(nb)}})
				run([]ioOp{{Kind: "seek", Off: a[0], Whence: io.SeekStart}, {Kind: "read", N: int(x)}, {Kind: "seek", Off: b[0], Whence: io.SeekStart}, {Kind: "read", N: nb},
					{Kind: "seek", Off: a[0] + x, Whence: io.SeekStart}, {Kind: "read", N: int(a[1] - x)}, {Kind: "seek", Off: b[0] + int64(nb) - a[0] - a[1], Whence: io.SeekCurrent}, {Kind: "read", N: 2049}})
			}
		}
	}
	// the same with the filesystem failing one operation on a member (descriptor table full, I/O error): the failed
	// call may report an error, but nothing panics and every later positional read is still the right slice
	if len(exts) >= 2 && !minimal {
		a, b := exts[0], exts[1]
		for _, kind := range []string{"Open", "Close", "Seek", "Read", "ReadAt"} {
			for nth := 1; nth <= 3; nth++ {
				leaf := newVFs(afero.NewOsFs(), "leaf")
				leaf.record = false
				armed, seen := false, 0
				leaf.Hook = func(e FsEvent) *FsFault {
					if !armed || e.Op != kind {
						return nil
					}
					seen++
					if seen == nth {
						return &FsFault{Err: syscall.EMFILE}
					}
					return nil
				}
				why := ""
				func() {
					defer func() {
						if p := recover(); p != nil {
							why = sprintf("panic: %v", p)
						}
					}()
					view, err := pfs.NewVirtualISO(afero.NewBasePathFs(leaf, root), "/T", ps3)
					if err != nil {
						return
					}
					defer view.Close()
					rd := func(off int64, n int, must bool) {
						if why != "" || n <= 0 {
							return
						}
						buf := make([]byte, n)
						k, err := view.ReadAt(buf, off)
						r.Transition(1)
						if k > 0 {
							got, want := append([]byte{}, buf[:k]...), append([]byte{}, img[off:off+int64(k)]...)
							mask(off, got)
							mask(off, want)
							if !bytes.Equal(got, want) {
								why = sprintf("ReadAt(%d bytes at %d) returned wrong bytes: %s", n, off, describeDiff(got, want))
							}
						}
						if must && (k != n || err != nil && err != io.EOF) && why == "" {
							why = sprintf("ReadAt(%d bytes at %d) before any fault returned (%d, %v)", n, off, k, err)
						}
					}
					rd(a[0], 1, true)
					armed = true
					rd(b[0], int(min(b[1], 100)), false)
					rd(a[0], int(min(a[1], 100)), false)
					rd(b[0], int(min(b[1], 100)), false)
					armed = false
					rd(b[0], int(b[1]), false)
					rd(a[0], int(a[1]), false)
					rd(0, int(min(announced, 70000)), false)
				}()
				r.Eval(1)
				if why != "" {
					r.Outcome("member-fault:bad")
					r.Violation("C09:member-fault:"+kind, sprintf("%s: %s no. %d on the member files fails with EMFILE while two members are read alternately: %s", desc, kind, nth, why), rep(nil))
				} else {
					r.Outcome("member-fault:ok")
				}
			}
		}
	}
	if sample {
		r.Sample(map[string]any{"tree": desc, "image_size": announced, "boundaries": bounds})
	}
}

// fileExtentsOf lists (start, length) of the non-empty single-extent files of a generated image, by position.
func fileExtentsOf(img []byte) [][2]int64 {
	var out [][2]int64
	if int64(len(img)) < 19*2048 {
		return nil
	}
	var p isoProblems
	pvd := parseVolDesc(memImage(img), 16, &p)
	if pvd.Type != 1 {
		return nil
	}
	h := walkHierarchy(memImage(img), pvd, &p)
	var rec func(n *isoNode)
	rec = func(n *isoNode) {
		for _, c := range n.Children {
			if c.IsDir {
				rec(c)
			} else if len(c.Extents) == 1 && c.Extents[0].Len > 1 {
				out = append(out, [2]int64{int64(c.Extents[0].LBA) * 2048, int64(c.Extents[0].Len)})
			}
		}
	}
	rec(h.Root)
	sort.Slice(out, func(i, j int) bool { return out[i][0] < out[j][0] })
	return out
}
